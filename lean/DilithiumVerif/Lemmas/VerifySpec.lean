import DilithiumVerif.Lemmas.VerifyTotal
/-
  Lemmas.VerifySpec — what the verifier's reconstruction returns, in the specification's terms:
  w1′ = UseHint(h, A·z − c·t1·2^d) coefficient by coefficient, and the bytes are w1Encode(w1′).
-/
namespace DV.Complete
open DV DV.NttSem DV.PolySem DV.VecSem DV.RoundSem DV.NttMul DV.NttZ DV.Ranges DV.Containers DV.ShakeSmall DV.ShakeTotal
open DV.SamplerTotal DV.DecodeTotal DV.HintCodec

theorem use_hint_is_spec (lv : Lvl) (a hint : Int) (ha : 0 ≤ a ∧ a < Q) (hh : hint = 0 ∨ hint = 1) :
    use_hint lv a hint = .ok (Spec.UseHint (gamma2Of lv) hint a) := by
  obtain ⟨g2, g3, g5⟩ := gamma2_vals
  cases lv with
  | l2 => rw [g2]; exact (C15.use_hint_eq_spec_88 a hint ha hh).1
  | l3 => rw [g3]; exact (C15.use_hint_eq_spec_32 .l3 (Or.inl rfl) a hint ha hh).1
  | l5 => rw [g5]; exact (C15.use_hint_eq_spec_32 .l5 (Or.inr rfl) a hint ha hh).1

theorem k_use_hint_is_spec (lv : Lvl) (w h : PolyVec) (hl : w.length = h.length) (hw : ∀ a ∈ w, Std a) (hh : ∀ a ∈ h, Bits a) :
    ∃ r, k_use_hint lv w h = .ok r ∧
      All3 (fun a hp x => All3 (fun v u y => y = Spec.UseHint (gamma2Of lv) u v) a hp x) w h r := by
  apply zipL_total (poly_use_hint lv) Std Bits _ _ w h hl hw hh
  intro a hp ha hhp
  exact zipL_total (use_hint lv) (fun v => 0 ≤ v ∧ v < Q) (fun v => v = 0 ∨ v = 1) (fun v u y => y = Spec.UseHint (gamma2Of lv) u v)
    (fun v u hv hu => ⟨_, use_hint_is_spec lv v u hv hu, rfl⟩) a hp (by rw [ha.1, hhp.1]) ha.2 hhp.2

set_option maxHeartbeats 1600000 in
/-- **The reconstruction is the specification's.** For a well-formed matrix and public t1, any z with coefficients in
    (−γ1, γ1], any 0/1 hint vector and any challenge seed c̃ on which SampleInBall returns c: `verify_tail` returns
    w1Encode(w1′) where w1′ = UseHint(h, w′) coefficient by coefficient (FIPS 204 Alg. 40) and w′ is the vector with
    coefficients in [0, q) that equals A·z − c·t1·2^13 in ℤ_q[X]/(X^256+1) (stated at the 256 NTT points). -/
theorem verify_tail_spec (p : Params) (hp : p ∈ allParams) (pk rho trh : List Nat)
    (htr : shake256 CRHBYTES p.trBytes pk p.pkBytes = .ok trh) (mat : List PolyVec) (hme : matrix_expand p FUEL rho = .ok mat)
    (hmat : MatOK p mat) (t1 : PolyVec) (ht1l : t1.length = p.k) (ht1 : ∀ a ∈ t1, T1OK a)
    (c : List Nat) (cp : Poly) (hcp : poly_challenge p FUEL c = .ok cp)
    (z : PolyVec) (hzl : z.length = p.l) (hz : ∀ a ∈ z, PolyOK ((p.gamma1 : Int) + 1) a)
    (h : PolyVec) (hhl : h.length = p.k) (hhb : ∀ a ∈ h, Bits a) :
    ∃ wv w1, verify_tail p pk rho t1 c z h = .ok (trh, k_pack_w1 p.lvl w1) ∧ wv.length = p.k ∧ (∀ a ∈ wv, Std a) ∧
      (∀ r, r < p.k → ∀ i, i < 256 →
        (El (wv.getD r []) i : K) = rowDot (mat.getD r []) z p.l i - ((8192 : Int) : K) * El cp i * El (t1.getD r []) i) ∧
      All3 (fun a hp' x => All3 (fun v u y => y = Spec.UseHint (gamma2Of p.lvl) u v) a hp' x) wv h w1 := by
  obtain ⟨hl0, hl7, hk0, hk8, hg1, hg2, hg1u, hg1l, hb0, hbu, hg2u, hg2l⟩ := params_facts p hp
  have hq : Q = 8380417 := Q_val'
  have hcpT := challenge_tern p FUEL c cp hcp
  have hcp2 : PolyOK 2 cp := ⟨hcpT.1, fun x hx => by have := hcpT.2 x hx; omega⟩
  obtain ⟨cph, e7, lcph, bcph, ecph⟩ := ntt_sem MK cp hcp2.1 2 (by omega) (by rw [hq]; omega) hcp2.2
  have hc9 : PolyOK (9 * Q) cph := ⟨lcph, Bd_mono _ _ (by rw [hq]; omega) cph bcph⟩
  obtain ⟨zh, wA, t1h, ct1, wS, wR, wI, wv, e1, e2, e3, e4, e5, e6, e8, e9, hwvl, hwvstd, hwvE⟩ :=
    verify_w_sem p hp mat hmat z ((p.gamma1 : Int) + 1) (by omega) (by rw [hq]; omega) hzl hz
      cph hc9 (fun i => El cp i) ecph t1 ht1l ht1
  obtain ⟨w1, hw1, rel⟩ := k_use_hint_is_spec p.lvl wv h (by rw [hwvl, hhl]) hwvstd hhb
  refine ⟨wv, w1, ?_, hwvl, hwvstd, hwvE, rel⟩
  have e7' : poly_ntt cp = .ok cph := e7
  unfold verify_tail
  rw [htr, ok_bind, hcp, ok_bind, hme, ok_bind, e1, ok_bind, e2, ok_bind, e7', ok_bind]
  dsimp only
  rw [e3, ok_bind, e4, ok_bind, e5, ok_bind, e6, ok_bind, e8, ok_bind, e9, ok_bind, hw1, ok_bind]

end DV.Complete

namespace DV.Complete
open DV DV.NttSem DV.PolySem DV.VecSem DV.RoundSem DV.NttMul DV.NttZ DV.Ranges DV.Containers DV.ShakeSmall DV.ShakeTotal
open DV.SamplerTotal DV.DecodeTotal DV.HintCodec

set_option maxHeartbeats 1600000 in
/-- **The decision of `verify`, in the specification's terms** (FIPS 204 Alg. 8 / Dilithium 3.1 Verify). For a public key
    of the right length that decodes to (ρ, t1), A = ExpandA(ρ), a byte string of SIGNBYTES bytes that decodes
    canonically to (c̃, z, h) and c = SampleInBall(c̃): `verify` returns false if ‖z‖∞ ≥ γ1 − β, and otherwise returns
    [c̃ = H(μ ‖ w1Encode(w1′))] with μ = H(H(pk) ‖ M′), w1′ = UseHint(h, w′), w′ = A·z − c·t1·2^13 mod q. (The other
    cases — wrong length, non-canonical hint section — are `C08.wrong_length_is_false_not_fault` and
    `C03.rejects_noncanonical_hint`.) -/
theorem verify_decision (p : Params) (hp : p ∈ allParams) (sig m pk : List Nat) (hpk : pk.length = p.pkBytes)
    (hsl : sig.length = p.sigBytes) (hb : ∀ b ∈ sig, b < 256)
    (rho : List Nat) (t1 : PolyVec) (hupk : unpack_pk p pk = .ok (rho, t1))
    (mat : List PolyVec) (hme : matrix_expand p FUEL rho = .ok mat)
    (c : List Nat) (z h : PolyVec) (husig : unpack_sig p sig = .ok (true, c, z, h))
    (cp : Poly) (hcp : poly_challenge p FUEL c = .ok cp) :
    ∃ trh wv w1, shake256 CRHBYTES p.trBytes pk p.pkBytes = .ok trh ∧ wv.length = p.k ∧ (∀ a ∈ wv, Std a) ∧
      (∀ r, r < p.k → ∀ i, i < 256 →
        (El (wv.getD r []) i : K) = rowDot (mat.getD r []) z p.l i - ((8192 : Int) : K) * El cp i * El (t1.getD r []) i) ∧
      All3 (fun a hp' x => All3 (fun v u y => y = Spec.UseHint (gamma2Of p.lvl) u v) a hp' x) wv h w1 ∧
      verify p sig m pk =
        (if ∃ a ∈ z, ∃ x ∈ a, (p.gamma1 : Int) - p.beta ≤ C18.iabs x then .ok false
         else compute_mu trh p.trBytes m >>= fun mu => compute_ctilde p mu (k_pack_w1 p.lvl w1) >>= fun c2 => .ok (decide (c = c2))) := by
  obtain ⟨hl0, hl7, hk0, hk8, hg1, hg2, hg1u, hg1l, hb0, hbu, hg2u, hg2l⟩ := params_facts p hp
  obtain ⟨_, htrR, htrC, _, _⟩ := e2e_facts p hp
  have hq : Q = 8380417 := Q_val'
  obtain ⟨rho', t1', hupk', hrl, ht1l, ht1⟩ := unpack_pk_total p hp pk hpk
  rw [hupk] at hupk'; injection hupk' with e; injection e with e1 e2; subst e1; subst e2
  obtain ⟨okv, c', z', h', husig', hcl, hzl, hz, hh⟩ := unpack_sig_total p hp sig hsl hb
  rw [husig] at husig'; injection husig' with e; injection e with e0 e; injection e with e1 e; injection e with e2 e3
  subst e0; subst e1; subst e2; subst e3
  obtain ⟨hhl, hhb⟩ := hh rfl
  have hzok : ∀ a ∈ z, PolyOK ((p.gamma1 : Int) + 1) a := fun a ha =>
    ⟨(hz a ha).1, fun x hx => by have := (hz a ha).2 x hx; rw [hg1]; omega⟩
  have hmat : MatOK p mat := by
    have := matrix_expand_ok p FUEL rho mat hme
    exact ⟨this.1, fun row hrow => ⟨(this.2 row hrow).1, fun a ha => (this.2 row hrow).2 a ha⟩⟩
  obtain ⟨trh, htr, _⟩ := shake256_small_total CRHBYTES p.trBytes pk htrR htrC
  rw [hpk] at htr
  obtain ⟨wv, w1, hvt, hwvl, hwvstd, hwvE, rel⟩ := verify_tail_spec p hp pk rho trh htr mat hme hmat t1 ht1l (fun a ha => ht1 a ha)
    c cp hcp z hzl hzok h hhl hhb
  refine ⟨trh, wv, w1, htr, hwvl, hwvstd, hwvE, rel, ?_⟩
  have hnorm := C18.vec_chknorm_exact z ((p.gamma1 : Int) - p.beta) (fun a ha x hx => by have := (hzok a ha).2 x hx; omega) (by rw [hq]; omega)
  unfold verify verify_core
  rw [if_pos hsl]
  simp only [bind_assoc]
  rw [hupk, ok_bind, husig, ok_bind]
  simp only [if_true]
  rw [hnorm, ok_bind]
  by_cases hex : ∃ a ∈ z, ∃ x ∈ a, (p.gamma1 : Int) - p.beta ≤ C18.iabs x
  · rw [if_pos hex, if_pos hex]
    simp
  · rw [if_neg hex, if_neg hex]
    simp only [Int.lt_irrefl, if_false]
    rw [hvt, ok_bind, ok_bind]

end DV.Complete
