import DilithiumVerif.Lemmas.Codecs2
import DilithiumVerif.Lemmas.Chunks
/-
  Lemmas.CodecsFull — the coefficient codecs on whole polynomials (256 coefficients): lengths and round trips,
  obtained by lifting the per-group lemmas.
-/
set_option linter.unusedVariables false
namespace DV

theorem t0_group_len (c : List Int) (b : List Nat) (h : t0_pack_group c = .ok b) : b.length = 13 := by
  unfold t0_pack_group at h
  obtain ⟨t, _, h⟩ := bind_eq_ok.mp h
  split at h
  · injection h with h; subst h; rfl
  · cases h

theorem eta2_group_len (c : List Int) (b : List Nat) (h : eta_pack_group2 c = .ok b) : b.length = 3 := by
  unfold eta_pack_group2 at h
  obtain ⟨t, _, h⟩ := bind_eq_ok.mp h
  split at h
  · injection h with h; subst h; rfl
  · cases h

theorem eta4_group_len (c : List Int) (b : List Nat) (h : eta_pack_group4 c = .ok b) : b.length = 1 := by
  unfold eta_pack_group4 at h
  obtain ⟨t, _, h⟩ := bind_eq_ok.mp h
  split at h
  · injection h with h; subst h; rfl
  · cases h

theorem z17_group_len (g : Int) (c : List Int) (b : List Nat) (h : z_pack_group17 g c = .ok b) : b.length = 9 := by
  unfold z_pack_group17 at h
  obtain ⟨t, _, h⟩ := bind_eq_ok.mp h
  split at h
  · injection h with h; subst h; rfl
  · cases h

theorem z19_group_len (g : Int) (c : List Int) (b : List Nat) (h : z_pack_group19 g c = .ok b) : b.length = 5 := by
  unfold z_pack_group19 at h
  obtain ⟨t, _, h⟩ := bind_eq_ok.mp h
  split at h
  · injection h with h; subst h; rfl
  · cases h

/-- from `(pack c >>= unpack) = ok c` to the existential form used by the lifting lemma -/
theorem group_exists {α β} (pack : α → Chk β) (unpack : β → Chk α) (c : α) (h : (pack c >>= unpack) = .ok c) :
    ∃ b, pack c = .ok b ∧ unpack b = .ok c := bind_eq_ok.mp h

/-! ### t1 -/
theorem t1_pack_length (a : List Int) (hl : a.length = 256) : (t1_pack a).length = 320 := by
  unfold t1_pack
  have hmem := chunks_mem 4 (by decide) a.length a rfl (by rw [hl])
  rw [flatMap_length_const t1_pack_group 5 (chunks 4 a) (fun c hc => by
    obtain ⟨c0, c1, c2, c3, rfl⟩ := list_len4 c (hmem c hc).1; rfl)]
  rw [chunks_length 4 (by decide) a.length a rfl (by rw [hl]), hl]

/-- t1: every polynomial with coefficients in [0, 2^10) is encoded in 320 bytes and decoded back exactly -/
theorem t1_roundtrip (a : List Int) (hl : a.length = 256) (ha : ∀ x ∈ a, 0 ≤ x ∧ x < 1024) :
    t1_unpack (t1_pack a) = .ok a := by
  unfold t1_unpack takeC
  have hlen := t1_pack_length a hl
  have hP : POLYT1 = 320 := by decide
  simp only [hP, hlen, Nat.le_refl, if_true, ok_bind]
  rw [← hlen, List.take_length]
  unfold t1_pack
  rw [roundtrip_lift (P := fun x => 0 ≤ x ∧ x < 1024) 4 5 (by decide) (by decide) t1_pack_group t1_unpack_group
    (fun c hc => by obtain ⟨c0, c1, c2, c3, rfl⟩ := list_len4 c hc; rfl)
    (fun c hc hP => by
      obtain ⟨c0, c1, c2, c3, rfl⟩ := list_len4 c hc
      exact t1_group_roundtrip c0 c1 c2 c3 (hP c0 (by simp)) (hP c1 (by simp)) (hP c2 (by simp)) (hP c3 (by simp)))
    a (by rw [hl]) ha]

/-! ### t0 -/
/-- t0: coefficients in (−2^12, 2^12] ↔ 416 bytes, no overflow -/
theorem t0_roundtrip (a : List Int) (hl : a.length = 256) (ha : ∀ x ∈ a, -4096 < x ∧ x ≤ 4096) :
    ∃ b, t0_pack a = .ok b ∧ b.length = 416 ∧ t0_unpack b = .ok a := by
  obtain ⟨bs, h1, h2, h3⟩ := roundtrip_liftM 8 13 (by decide) (by decide) t0_pack_group t0_unpack_group
    (fun x => -4096 < x ∧ x ≤ 4096)
    (fun c hc hP => by
      obtain ⟨c0, c1, c2, c3, c4, c5, c6, c7, rfl⟩ := list_len8 c hc
      obtain ⟨b, hb, hub⟩ := group_exists t0_pack_group t0_unpack_group _
        (t0_group_roundtrip c0 c1 c2 c3 c4 c5 c6 c7 (hP c0 (by simp)) (hP c1 (by simp)) (hP c2 (by simp)) (hP c3 (by simp))
          (hP c4 (by simp)) (hP c5 (by simp)) (hP c6 (by simp)) (hP c7 (by simp)))
      exact ⟨b, hb, t0_group_len _ b hb, hub⟩)
    a (by rw [hl]) ha
  refine ⟨bs.flatten, ?_, by rw [h2, hl], ?_⟩
  · unfold t0_pack; rw [h1]; rfl
  · unfold t0_unpack takeC
    have hP : POLYT0 = 416 := by decide
    have hlen : bs.flatten.length = 416 := by rw [h2, hl]
    simp only [hP, hlen, Nat.le_refl, if_true, ok_bind]
    rw [← hlen, List.take_length, h3]
    simp only [ok_bind]
    rw [chunks_flatten 8 (by decide) a.length a rfl]

/-! ### eta -/
/-- η = 2 (lvl2, lvl5 copies): coefficients in [−2, 2] ↔ 96 bytes -/
theorem eta2_roundtrip (lv : Lvl) (hlv : lv = .l2 ∨ lv = .l5) (a : List Int) (hl : a.length = 256) (ha : ∀ x ∈ a, -2 ≤ x ∧ x ≤ 2) :
    ∃ b, eta_pack lv a = .ok b ∧ b.length = 96 ∧ eta_unpack lv b = .ok a := by
  obtain ⟨bs, h1, h2, h3⟩ := roundtrip_liftM 8 3 (by decide) (by decide) eta_pack_group2 eta_unpack_group2
    (fun x => -2 ≤ x ∧ x ≤ 2)
    (fun c hc hP => by
      obtain ⟨c0, c1, c2, c3, c4, c5, c6, c7, rfl⟩ := list_len8 c hc
      obtain ⟨b, hb, hub⟩ := group_exists eta_pack_group2 eta_unpack_group2 _
        (eta2_group_roundtrip c0 c1 c2 c3 c4 c5 c6 c7 (hP c0 (by simp)) (hP c1 (by simp)) (hP c2 (by simp)) (hP c3 (by simp))
          (hP c4 (by simp)) (hP c5 (by simp)) (hP c6 (by simp)) (hP c7 (by simp)))
      exact ⟨b, hb, eta2_group_len _ b hb, hub⟩)
    a (by rw [hl]) ha
  have hlen : bs.flatten.length = 96 := by rw [h2, hl]
  have hpe : polyetaOf lv = 96 := by rcases hlv with rfl | rfl <;> decide
  refine ⟨bs.flatten, ?_, hlen, ?_⟩
  · rcases hlv with rfl | rfl <;> (simp only [eta_pack]; rw [h1]; rfl)
  · unfold eta_unpack takeC
    simp only [hpe, hlen, Nat.le_refl, if_true, ok_bind]
    rw [← hlen, List.take_length]
    rcases hlv with rfl | rfl <;>
      (simp only; rw [h3]; simp only [ok_bind]; rw [chunks_flatten 8 (by decide) a.length a rfl])

/-- η = 4 (lvl3 copy): coefficients in [−4, 4] ↔ 128 bytes -/
theorem eta4_roundtrip (a : List Int) (hl : a.length = 256) (ha : ∀ x ∈ a, -4 ≤ x ∧ x ≤ 4) :
    ∃ b, eta_pack .l3 a = .ok b ∧ b.length = 128 ∧ eta_unpack .l3 b = .ok a := by
  obtain ⟨bs, h1, h2, h3⟩ := roundtrip_liftM 2 1 (by decide) (by decide) eta_pack_group4 eta_unpack_group4
    (fun x => -4 ≤ x ∧ x ≤ 4)
    (fun c hc hP => by
      obtain ⟨c0, c1, rfl⟩ := list_len2 c hc
      obtain ⟨b, hb, hub⟩ := group_exists eta_pack_group4 eta_unpack_group4 _
        (eta4_group_roundtrip c0 c1 (hP c0 (by simp)) (hP c1 (by simp)))
      exact ⟨b, hb, eta4_group_len _ b hb, hub⟩)
    a (by rw [hl]) ha
  have hlen : bs.flatten.length = 128 := by rw [h2, hl]
  have hpe : polyetaOf .l3 = 128 := by decide
  refine ⟨bs.flatten, ?_, hlen, ?_⟩
  · simp only [eta_pack]; rw [h1]; rfl
  · unfold eta_unpack takeC
    simp only [hpe, hlen, Nat.le_refl, if_true, ok_bind]
    rw [← hlen, List.take_length]
    rw [h3]; simp only [ok_bind]; rw [chunks_flatten 2 (by decide) a.length a rfl]

/-! ### z -/
/-- γ1 = 2^17 (lvl2 copy): coefficients in (−γ1, γ1] ↔ 576 bytes -/
theorem z17_roundtrip (a : List Int) (hl : a.length = 256) (ha : ∀ x ∈ a, -131072 < x ∧ x ≤ 131072) :
    ∃ b, z_pack .l2 a = .ok b ∧ b.length = 576 ∧ z_unpack .l2 b = .ok a := by
  have hg1 : gamma1Of .l2 = 131072 := by decide
  obtain ⟨bs, h1, h2, h3⟩ := roundtrip_liftM 4 9 (by decide) (by decide) (z_pack_group17 131072) (z_unpack_group17 131072)
    (fun x => -131072 < x ∧ x ≤ 131072)
    (fun c hc hP => by
      obtain ⟨c0, c1, c2, c3, rfl⟩ := list_len4 c hc
      obtain ⟨b, hb, hub⟩ := group_exists (z_pack_group17 131072) (z_unpack_group17 131072) _
        (z17_group_roundtrip c0 c1 c2 c3 (hP c0 (by simp)) (hP c1 (by simp)) (hP c2 (by simp)) (hP c3 (by simp)))
      exact ⟨b, hb, z17_group_len _ _ b hb, hub⟩)
    a (by rw [hl]) ha
  have hlen : bs.flatten.length = 576 := by rw [h2, hl]
  have hpz : polyzOf .l2 = 576 := by decide
  refine ⟨bs.flatten, ?_, hlen, ?_⟩
  · simp only [z_pack, hg1]; rw [h1]; rfl
  · unfold z_unpack takeC
    simp only [hpz, hlen, Nat.le_refl, if_true, ok_bind, hg1]
    rw [← hlen, List.take_length, h3]; simp only [ok_bind]; rw [chunks_flatten 4 (by decide) a.length a rfl]

/-- γ1 = 2^19 (lvl3, lvl5 copies): coefficients in (−γ1, γ1] ↔ 640 bytes -/
theorem z19_roundtrip (lv : Lvl) (hlv : lv = .l3 ∨ lv = .l5) (a : List Int) (hl : a.length = 256) (ha : ∀ x ∈ a, -524288 < x ∧ x ≤ 524288) :
    ∃ b, z_pack lv a = .ok b ∧ b.length = 640 ∧ z_unpack lv b = .ok a := by
  have hg1 : gamma1Of lv = 524288 := by rcases hlv with rfl | rfl <;> decide
  obtain ⟨bs, h1, h2, h3⟩ := roundtrip_liftM 2 5 (by decide) (by decide) (z_pack_group19 524288) (z_unpack_group19 524288)
    (fun x => -524288 < x ∧ x ≤ 524288)
    (fun c hc hP => by
      obtain ⟨c0, c1, rfl⟩ := list_len2 c hc
      obtain ⟨b, hb, hub⟩ := group_exists (z_pack_group19 524288) (z_unpack_group19 524288) _
        (z19_group_roundtrip c0 c1 (hP c0 (by simp)) (hP c1 (by simp)))
      exact ⟨b, hb, z19_group_len _ _ b hb, hub⟩)
    a (by rw [hl]) ha
  have hlen : bs.flatten.length = 640 := by rw [h2, hl]
  have hpz : polyzOf lv = 640 := by rcases hlv with rfl | rfl <;> decide
  refine ⟨bs.flatten, ?_, hlen, ?_⟩
  · rcases hlv with rfl | rfl <;> (simp only [z_pack, hg1]; rw [h1]; rfl)
  · unfold z_unpack takeC
    simp only [hpz, hlen, Nat.le_refl, if_true, ok_bind, hg1]
    rw [← hlen, List.take_length]
    rcases hlv with rfl | rfl <;>
      (simp only; rw [h3]; simp only [ok_bind]; rw [chunks_flatten 2 (by decide) a.length a rfl])

end DV
