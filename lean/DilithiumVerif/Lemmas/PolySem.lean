import DilithiumVerif.Lemmas.NttRev
import DilithiumVerif.Lemmas.Lift
/-
  Lemmas.PolySem — the polynomial-level operations of the model, read in a ring R with q = 0 and 2^32 invertible,
  through the 256 evaluation maps  Ev A i = A(ρ_i),  ρ_i = 1753^(2·brv8(i)+1).  Every lemma is in total form:
  under the stated coefficient bounds the operation succeeds (no overflow), the result is bounded, and its reading
  in R is the expected one.
-/
namespace DV.PolySem
open DV DV.NttAlg DV.NttSem DV.NttEval DV.NttInv DV.NttMul DV.NttRev

variable {R : Type} [CommRing R]

/-- evaluation of a coefficient list at the i-th root -/
def Ev (A : List R) (i : Nat) : R := peval A (rho R i)

theorem peval_zipWith_add (x : R) : ∀ (a b : List R), a.length = b.length →
    peval (List.zipWith (fun u v => u + v) a b) x = peval a x + peval b x
  | [], [], _ => by simp [peval_nil]
  | a :: as, b :: bs, h => by
      simp only [List.zipWith_cons_cons, peval_cons, peval_zipWith_add x as bs (by simpa using h)]; ring
  | [], _ :: _, h => by simp at h
  | _ :: _, [], h => by simp at h

theorem peval_zipWith_sub (x : R) : ∀ (a b : List R), a.length = b.length →
    peval (List.zipWith (fun u v => u - v) a b) x = peval a x - peval b x
  | [], [], _ => by simp [peval_nil]
  | a :: as, b :: bs, h => by
      simp only [List.zipWith_cons_cons, peval_cons, peval_zipWith_sub x as bs (by simpa using h)]; ring
  | [], _ :: _, h => by simp at h
  | _ :: _, [], h => by simp at h

theorem Ev_add (A B : List R) (h : A.length = B.length) (i : Nat) :
    Ev (List.zipWith (fun u v => u + v) A B) i = Ev A i + Ev B i := peval_zipWith_add _ A B h
theorem Ev_sub (A B : List R) (h : A.length = B.length) (i : Nat) :
    Ev (List.zipWith (fun u v => u - v) A B) i = Ev A i - Ev B i := peval_zipWith_sub _ A B h
theorem Ev_smul (c : R) (A : List R) (i : Nat) : Ev (A.map (fun v => c * v)) i = c * Ev A i := peval_map_mul c _ A

theorem two32 : ((4294967296 : Int) : R) = (2:R)^32 := by norm_num

theorem inttBF_nttBF_256 (M : ModQ R) (X : List R) (hX : X.length = 2 ^ 8) :
    inttBF (wR M) 8 2 (nttBF (zR M) 8 1 X) = X.map (fun v => (2:R)^8 * v) := by
  have key := inttBF_nttBF (zR M) (wR M) 8 1 [X] (1 : R) (by intro b hb; simp at hb; subst hb; exact hX)
    (by intro t j ht hj
        have := pair_R M t j ht (by simpa using hj)
        have e1 : 1 * 2^t + j = 2^t + j := by rw [Nat.one_mul]
        have e2 : (1 + [X].length) * 2^t - 1 - j = 2^(t+1) - 1 - j := by simp [pow_succ]; ring_nf
        rw [e1, e2]; exact this)
  simp only [List.flatten_cons, List.flatten_nil, List.append_nil, List.length_cons, List.length_nil, one_mul, mul_one] at key
  have e0 : (fun x : R => x) = id := rfl
  rw [e0, List.map_id] at key
  rw [show (1 + (0 + 1) : Nat) = 2 from rfl] at key
  exact key

theorem nttBF_inttBF_256 (M : ModQ R) (X : List R) (hX : X.length = 2 ^ 8) (s : R) :
    nttBF (zR M) 8 1 ((inttBF (wR M) 8 2 X).map (fun v => s * v)) = X.map (fun v => ((2:R)^8 * s) * v) := by
  have key := nttBF_inttBF (zR M) (wR M) 8 1 [X] s (by intro b hb; simp at hb; subst hb; exact hX)
    (by intro t j ht hj
        have := pair_R M t j ht (by simpa using hj)
        have e1 : 1 * 2^t + j = 2^t + j := by rw [Nat.one_mul]
        have e2 : (1 + [X].length) * 2^t - 1 - j = 2^(t+1) - 1 - j := by simp [pow_succ]; ring_nf
        rw [e1, e2]; exact this)
  simp only [List.flatten_cons, List.flatten_nil, List.append_nil, List.length_cons, List.length_nil] at key
  rw [show (1 + (0 + 1) : Nat) = 2 from rfl] at key
  exact key

/-- the 256 evaluations determine a list of 256 coefficients (the transform is injective: 2 is invertible) -/
theorem Ev_inj (M : ModQ R) (A B : List R) (hA : A.length = 256) (hB : B.length = 256)
    (h : ∀ i, i < 256 → Ev A i = Ev B i) : A = B := by
  have hA8 : A.length = 2 ^ 8 := by rw [hA]; norm_num
  have hB8 : B.length = 2 ^ 8 := by rw [hB]; norm_num
  have hN : nttBF (zR M) 8 1 A = nttBF (zR M) 8 1 B := by
    apply ext_getD 256 _ _ (nttBF_length _ _ hA8) (nttBF_length _ _ hB8)
    intro i hi
    rw [nttBF_eval M A hA8 i hi, nttBF_eval M B hB8 i hi]
    exact h i hi
  have h1 := inttBF_nttBF_256 M A hA8
  rw [hN, inttBF_nttBF_256 M B hB8] at h1
  have hu : M.u * (2:R)^32 = 1 := by rw [← two32]; exact M.hu
  have key : ∀ (X : List R), (X.map (fun v => (2:R)^8 * v)).map (fun v => ((2:R)^24 * M.u) * v) = X := by
    intro X
    rw [List.map_map]
    conv_rhs => rw [← List.map_id X]
    congr 1
    funext v
    simp only [Function.comp, id]
    calc (2:R)^24 * M.u * ((2:R)^8 * v) = (M.u * (2:R)^32) * v := by ring
      _ = v := by rw [hu, one_mul]
  rw [← key A, ← key B, h1]

/-! ### transforms -/

theorem ntt_sem (M : ModQ R) (a : List Int) (hl : a.length = 256) (B : Int) (hB0 : 0 < B) (hB : B + 8 * Q ≤ 2147483648) (hb : Bd B a) :
    ∃ y, ntt a = .ok y ∧ y.length = 256 ∧ Bd (B + 8 * Q) y ∧ ∀ i, i < 256 → (castL y : List R).getD i 0 = Ev (castL a) i := by
  obtain ⟨y, hy, ly, by'⟩ := ntt_bound a hl B hB0 hB hb
  refine ⟨y, hy, ly, by', fun i hi => ?_⟩
  rw [castL_getD]
  exact ntt_eval M a y hl B hB0 hB hb hy i hi

theorem invntt_sem (M : ModQ R) (b : List Int) (hl : b.length = 256) (hb : Bd Q b) :
    ∃ r, invntt_tomont b = .ok r ∧ r.length = 256 ∧ Bd Q r ∧
      ∀ i, i < 256 → Ev (castL r) i = ((4294967296 : Int) : R) * (castL b : List R).getD i 0 := by
  obtain ⟨r, hr, lr, br⟩ := invntt_bound b hl hb
  refine ⟨r, hr, lr, br, fun i hi => ?_⟩
  have hB8 : (castL b : List R).length = 2 ^ 8 := by simp [castL, hl]
  have hR8 : (castL r : List R).length = 2 ^ 8 := by simp [castL, lr]
  unfold Ev
  rw [← nttBF_eval M _ hR8 i hi, invntt_cast M b r hl hb hr, nttBF_inttBF_256 M _ hB8]
  rw [List.getD_eq_getElem?_getD, List.getD_eq_getElem?_getD, List.getElem?_map]
  have hi' : i < (castL b : List R).length := by rw [hB8]; norm_num; exact hi
  rw [List.getElem?_eq_getElem hi']
  simp only [Option.map_some, Option.getD_some]
  rw [mul_comm ((2:R)^8) _, F_R M]

theorem pointwise_sem (M : ModQ R) (a b : List Int) (hla : a.length = 256) (hlb : b.length = 256) (ha : Bd (9 * Q) a) (hb : Bd (9 * Q) b) :
    ∃ w, poly_pointwise_montgomery a b = .ok w ∧ w.length = 256 ∧ Bd Q w ∧
      ∀ i, i < 256 → (castL w : List R).getD i 0 = M.u * (castL a : List R).getD i 0 * (castL b : List R).getD i 0 := by
  obtain ⟨w, hw, lw, bw, cw⟩ := pointwise_spec M a b (by rw [hla, hlb]) ha hb
  refine ⟨w, hw, by rw [lw, hla], bw, fun i hi => ?_⟩
  rw [cw, zipWith_getD _ _ _ i (by simp [castL, hla]; exact hi) (by simp [castL, hlb]; exact hi)]

/-! ### coefficient-wise operations -/

theorem cast_cong (M : ModQ R) (x y : Int) (h : (x - y) % Q = 0) : ((x : Int) : R) = ((y : Int) : R) := by
  rw [Q_val'] at h
  have := cast_of_dvd M _ h
  rw [Int.cast_sub] at this
  exact sub_eq_zero.mp this

theorem poly_add_sem (C D : Int) (hCD : C + D ≤ 2147483648) (a b : List Int) (hl : a.length = b.length) (ha : Bd C a) (hb : Bd D b) :
    ∃ r, poly_add a b = .ok r ∧ r.length = a.length ∧ Bd (C + D) r ∧
      (castL r : List R) = List.zipWith (fun u v => u + v) (castL a) (castL b) := by
  obtain ⟨r, hr, h3⟩ := zipL_total add32 (fun x => -C < x ∧ x < C) (fun y => -D < y ∧ y < D)
    (fun x y z => z = x + y ∧ -(C + D) < z ∧ z < C + D)
    (fun x y hx hy => ⟨x + y, add32_ok _ _ (by omega), rfl, by omega, by omega⟩) a b hl ha hb
  refine ⟨r, hr, h3.length.2, h3.out (fun _ _ _ h => ⟨h.2.1, h.2.2⟩), ?_⟩
  exact zipL_add32_cast a b r hr

theorem poly_sub_sem (C D : Int) (hCD : C + D ≤ 2147483648) (a b : List Int) (hl : a.length = b.length) (ha : Bd C a) (hb : Bd D b) :
    ∃ r, poly_sub a b = .ok r ∧ r.length = a.length ∧ Bd (C + D) r ∧
      (castL r : List R) = List.zipWith (fun u v => u - v) (castL a) (castL b) := by
  obtain ⟨r, hr, h3⟩ := zipL_total sub32 (fun x => -C < x ∧ x < C) (fun y => -D < y ∧ y < D)
    (fun x y z => z = x - y ∧ -(C + D) < z ∧ z < C + D)
    (fun x y hx hy => ⟨x - y, sub32_ok _ _ (by omega), rfl, by omega, by omega⟩) a b hl ha hb
  refine ⟨r, hr, h3.length.2, h3.out (fun _ _ _ h => ⟨h.2.1, h.2.2⟩), ?_⟩
  exact zipL_sub32_cast a b r hr

theorem poly_reduce_sem (M : ModQ R) (a : List Int) (ha : Bd (2147483648 - 4194304) a) :
    ∃ r, poly_reduce a = .ok r ∧ r.length = a.length ∧ Bd 6283010 r ∧ (castL r : List R) = castL a := by
  obtain ⟨r, hr, h2⟩ := mapL_total reduce32 (fun x => -(2147483648 - 4194304) < x ∧ x < 2147483648 - 4194304)
    (fun x y => (y - x) % Q = 0 ∧ -6283010 < y ∧ y < 6283010)
    (fun x hx => by
      obtain ⟨y, hy, hc, h1, h2⟩ := C14.reduce32_spec x (by omega)
      exact ⟨y, hy, hc, by omega, by omega⟩) a ha
  refine ⟨r, hr, h2.length, h2.right (fun _ _ h => ⟨h.2.1, h.2.2⟩), ?_⟩
  unfold castL
  exact All2.map_eq (h2.mono (fun x y h => cast_cong M y x h.1))

theorem poly_caddq_sem (M : ModQ R) (a : List Int) (ha : Bd Q a) :
    ∃ r, poly_caddq a = .ok r ∧ r.length = a.length ∧ (∀ x ∈ r, 0 ≤ x ∧ x < Q) ∧ (castL r : List R) = castL a ∧
      All2 (fun x y => (y - x) % Q = 0) a r := by
  obtain ⟨r, hr, h2⟩ := mapL_total caddq (fun x => -Q < x ∧ x < Q)
    (fun x y => (y - x) % Q = 0 ∧ 0 ≤ y ∧ y < Q)
    (fun x hx => by
      obtain ⟨y, hy, h0, h1, hc⟩ := C14.caddq_spec x hx
      exact ⟨y, hy, hc, h0, h1⟩) a ha
  refine ⟨r, hr, h2.length, h2.right (fun _ _ h => ⟨h.2.1, h.2.2⟩), ?_, h2.mono (fun _ _ h => h.1)⟩
  unfold castL
  exact All2.map_eq (h2.mono (fun x y h => cast_cong M y x h.1))

end DV.PolySem
