import DilithiumVerif.Impl.Basic
import DilithiumVerif.Impl.Params
import DilithiumVerif.Impl.Reduce
import DilithiumVerif.Impl.Rounding
