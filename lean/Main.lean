import DilithiumVerif.Driver.Dispatch
/- Line-protocol driver: one request per line on stdin, one answer per line on stdout. -/
open DV DV.Drv

partial def loop (hin : IO.FS.Stream) (hout : IO.FS.Stream) : IO Unit := do
  let line ← hin.getLine
  if line.isEmpty then return ()
  let l := line.trimAscii.toString
  if l.isEmpty || l.startsWith "#" then
    hout.putStrLn ""
  else
    hout.putStrLn (answer (l.splitOn " "))
  loop hin hout

def main : IO Unit := do
  let hin ← IO.getStdin
  let hout ← IO.getStdout
  loop hin hout
  hout.flush
