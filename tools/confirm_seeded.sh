#!/bin/bash
# tools/confirm_seeded.sh <dir with patch.diff + demo.rs> : confirm in a fresh scratch worktree that the change
# compiles, passes the repository's 52 tests, and that the demonstration fails with it and passes without it.
set -u
D="$1"
W=$(mktemp -d /tmp/confirm-XXXX)
git -C /repo worktree add -q --detach "$W" HEAD || exit 2
cd "$W"
export CARGO_NET_OFFLINE=true
if grep -q '#\[test\]' "$D/demo.rs"; then mkdir -p tests; cp "$D/demo.rs" tests/seed_demo.rs; RUN="cargo test --offline --release --test seed_demo"; else mkdir -p examples; cp "$D/demo.rs" examples/seed_demo.rs; RUN="cargo run --offline --release --example seed_demo"; fi
$RUN >/tmp/confirm_clean.log 2>&1; rc_clean=$?
git apply "$D/patch.diff" || { echo "patch failed"; }
cargo test --offline --lib 2>&1 | grep -E "^test result" | head -1 > /tmp/confirm_suite.log
$RUN >/tmp/confirm_patched.log 2>&1; rc_patched=$?
echo "suite_with_patch: $(cat /tmp/confirm_suite.log)"
echo "demo_clean_rc=$rc_clean demo_patched_rc=$rc_patched"
cd /; git -C /repo worktree remove --force "$W"
[ $rc_clean -eq 0 ] && [ $rc_patched -ne 0 ] && grep -q "52 passed; 0 failed" /tmp/confirm_suite.log && echo CONFIRMED || echo NOT-CONFIRMED
