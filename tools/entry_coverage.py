#!/usr/bin/env python3
"""Which public functions of the crate did the last runs of the checks address?

Enumerates every `pub fn` under /repo/src (outside #[cfg(test)] and the verification hook) with its module path and
looks it up in the union of `coverage.entry_points_addressed` of evidence/*.json (written by every run of ./check).
Request names mirror the Rust paths (poly::lvl2::use_hint_ip, polyvec::lvl3::k_reduce, sign::ml_dsa_44::verify,
ml_dsa_44::SecretKey::sign, ...); the SHAKE interface is addressed through scripts (fips202::shake256_script with the
operations a: / o: / f: / s: / b: / i), which this tool maps back to the functions they call.
Prints the functions no request addressed; exit 0 always (a reporting tool, not a check)."""
import os, re, json, glob, sys
V = os.path.dirname(os.path.dirname(os.path.abspath(__file__)))
SRC = "/repo/src"
SCRIPTED = {  # functions reached through the script / stream requests
    "fips202::shake256_absorb": "fips202::shake256_script", "fips202::shake256_finalize": "fips202::shake256_script",
    "fips202::shake256_squeeze": "fips202::shake256_script", "fips202::shake256_squeezeblocks": "fips202::shake256_script",
    "fips202::shake256_absorb_once": "fips202::shake256_script", "fips202::shake128_absorb": "fips202::shake128_script",
    "fips202::shake128_finalize": "fips202::shake128_script", "fips202::shake128_squeezeblocks": "fips202::shake128_script",
    "fips202::init": "fips202::shake256_script",
}
ALIAS = {"to_bytes": "roundtrip", "from_bytes": "roundtrip"}


def functions():
    out = []
    for root, _, files in os.walk(SRC):
        for f in files:
            if not f.endswith(".rs") or f in ("verif_hooks.rs", "lib.rs"):
                continue
            path = os.path.join(root, f)
            mod = os.path.relpath(path, SRC)[:-3].replace("/", "::")
            txt = open(path).read().split("#[cfg(test)]")[0]
            impl = None
            depth = 0
            for line in txt.split("\n"):
                m = re.match(r"\s*impl\s+(?:\w+\s+for\s+)?(\w+)", line)
                if m and depth == 0:
                    impl = m.group(1)
                m2 = re.search(r"pub fn (\w+)", line)
                if m2:
                    out.append((mod, impl if line.startswith((" ", "\t")) and impl else None, m2.group(1)))
                depth += line.count("{") - line.count("}")
                if depth == 0 and line.strip() == "}":
                    impl = None
    return out


def main():
    addressed = {}
    for ev in glob.glob(os.path.join(V, "evidence", "C*.json")):
        d = json.load(open(ev))
        for k, n in (d.get("coverage", {}).get("entry_points_addressed") or d.get("entry_points_addressed") or {}).items():
            addressed[k] = addressed.get(k, 0) + n
    if not addressed:
        print("no entry_points_addressed in evidence/ (run the checks first)")
        return
    missing = []
    for (mod, impl, fn) in functions():
        name = "%s::%s::%s" % (mod, impl, ALIAS.get(fn, fn)) if impl else "%s::%s" % (mod, fn)
        cands = [name, SCRIPTED.get(name, "")]
        if impl == "KeccakState":
            cands.append("fips202::shake256_script")
        if not any(c and c in addressed for c in cands):
            missing.append(name)
    print("%d public functions, %d request kinds addressed in the last runs" % (len(functions()), len(addressed)))
    for m in sorted(missing):
        print("not addressed:", m)


if __name__ == "__main__":
    main()
