"""Core of the check driver: builds, axiom audit, running the two line-protocol servers
(Lean model, Rust implementation), comparison, replay and evidence files."""
import json, os, re, subprocess, sys, time, random, hashlib, tempfile, shutil
from concurrent.futures import ThreadPoolExecutor

VERIF = os.path.dirname(os.path.dirname(os.path.dirname(os.path.abspath(__file__))))
LEAN = os.path.join(VERIF, "lean")
HARNESS = os.path.join(VERIF, "harness")
REPO = os.environ.get("VERIF_REPO", "/repo")
MODEL_BIN = os.path.join(LEAN, ".lake", "build", "bin", "model")
WORK = os.path.join(VERIF, "work")
REPLAYS = os.path.join(VERIF, "replays")
EVIDENCE = os.path.join(VERIF, "evidence")
NCPU = os.cpu_count() or 4
AX_WHITELIST = {"propext", "Classical.choice", "Quot.sound"}
FORBIDDEN = re.compile(r"\bsorry\b|\badmit\b|^axiom\s|\bnative_decide\b|\bbv_decide\b|implemented_by|\bunsafe\s|maxHeartbeats\s+0")

ENV = dict(os.environ, CARGO_NET_OFFLINE="true")


def log(*a):
    print("[check]", *a, file=sys.stderr, flush=True)


def sh(cmd, cwd=None, timeout=None, env=None):
    p = subprocess.run(cmd, cwd=cwd, shell=isinstance(cmd, str), stdout=subprocess.PIPE, stderr=subprocess.STDOUT,
                       text=True, timeout=timeout, env=env or ENV)
    return p.returncode, p.stdout


# ---------------------------------------------------------------- constants / builds

def regen_constants():
    rc, out = sh([sys.executable, os.path.join(VERIF, "tools", "extract_constants.py")])
    status = out.strip().splitlines()[-1] if out.strip() else "constants: ?"
    return status


def lake_build(targets):
    """returns (ok, output)"""
    rc, out = sh(["lake", "build"] + targets, cwd=LEAN, timeout=3600)
    return rc == 0, out


def _project_imports(mod):
    p = os.path.join(LEAN, mod.replace(".", "/") + ".lean")
    if not os.path.exists(p):
        return []
    return re.findall(r"^import (DilithiumVerif\S*)", open(p).read(), flags=re.M)


def leancheck(prop_id):
    """independent re-check (leanchecker: replays the compiled declarations through the kernel) of every project module
    the property's theorem module depends on; modules whose .olean was already re-checked are skipped (cache keyed by the
    .olean's hash). returns (ok, info dict)"""
    root = "DilithiumVerif.Props." + prop_id
    seen, st = [], [root]
    while st:
        m = st.pop()
        if m in seen:
            continue
        seen.append(m)
        st += _project_imports(m)
    cache_p = os.path.join(LEAN, ".lake", "leanchecker_cache.json")
    try:
        cache = json.load(open(cache_p))
    except Exception:
        cache = {}
    todo, keys = [], {}
    for m in seen:
        ol = os.path.join(LEAN, ".lake", "build", "lib", "lean", m.replace(".", "/") + ".olean")
        if not os.path.exists(ol):
            return False, dict(modules=len(seen), error="missing " + ol)
        keys[m] = hashlib.sha256(open(ol, "rb").read()).hexdigest()
        if cache.get(m) != keys[m]:
            todo.append(m)
    info = dict(modules=len(seen), rechecked_now=len(todo), cached=len(seen) - len(todo))
    if todo:
        rc, out = sh(["lake", "env", "leanchecker"] + todo, cwd=LEAN, timeout=7200)
        if rc != 0:
            info["error"] = out[-1500:]
            return False, info
        for m in todo:
            cache[m] = keys[m]
        with open(cache_p, "w") as f:
            json.dump(cache, f)
    return True, info


def harness_build():
    """build the harness against /repo's working tree, both profiles. returns (ok, output)"""
    lock_src = os.path.join(REPO, "Cargo.lock")
    outs = []
    for prof in (["--profile", "checked"], ["--release"]):
        rc, out = sh(["cargo", "build", "--offline", "--quiet"] + prof, cwd=HARNESS, timeout=3600)
        outs.append(out)
        if rc != 0:
            return False, "\n".join(outs)
    return True, "\n".join(outs)


def harness_bin(profile):
    return os.path.join(HARNESS, "target", profile, "dv-harness")


# ---------------------------------------------------------------- theorem registry / audit

def theorems_of(prop_id):
    """property theorems = every `theorem` in Props/<id>.lean (namespace DV.<id>)"""
    path = os.path.join(LEAN, "DilithiumVerif", "Props", prop_id + ".lean")
    src = open(path).read()
    # strip block comments for the scans
    nocom = re.sub(r"/-.*?-/", "", src, flags=re.S)
    nocom = re.sub(r"--[^\n]*", "", nocom)
    names = re.findall(r"^theorem\s+([A-Za-z0-9_'.]+)", nocom, flags=re.M)
    examples = len(re.findall(r"^example\b", nocom, flags=re.M))
    return ["DV.%s.%s" % (prop_id, n) for n in names], examples


def lean_sources_for(prop_id):
    """all .lean files transitively imported by Props/<id>.lean inside the project"""
    seen, todo = set(), ["DilithiumVerif.Props." + prop_id]
    while todo:
        m = todo.pop()
        if m in seen:
            continue
        p = os.path.join(LEAN, *m.split(".")) + ".lean"
        if not os.path.exists(p):
            continue
        seen.add(m)
        for imp in re.findall(r"^import\s+(\S+)", open(p).read(), flags=re.M):
            if imp.startswith("DilithiumVerif"):
                todo.append(imp)
    return sorted(seen)


def audit(prop_id):
    """returns dict(ok, theorems=[...], axioms={thm: [...]}, problems=[...])"""
    thms, examples = theorems_of(prop_id)
    problems = []
    for m in lean_sources_for(prop_id):
        p = os.path.join(LEAN, *m.split(".")) + ".lean"
        src = open(p).read()
        nocom = re.sub(r"/-.*?-/", "", src, flags=re.S)
        nocom = re.sub(r"--[^\n]*", "", nocom)
        for ln in nocom.splitlines():
            if FORBIDDEN.search(ln):
                problems.append("%s: forbidden token in: %s" % (m, ln.strip()[:80]))
    os.makedirs(WORK, exist_ok=True)
    f = os.path.join(WORK, "axioms_%s.lean" % prop_id)
    with open(f, "w") as fh:
        fh.write("import DilithiumVerif.Props.%s\n" % prop_id)
        for t in thms:
            fh.write("#print axioms %s\n" % t)
    rc, out = sh(["lake", "env", "lean", f], cwd=LEAN, timeout=1800)
    axioms = {}
    for m in re.finditer(r"'([^']+)' depends on axioms: \[([^\]]*)\]", out):
        axioms[m.group(1)] = [a.strip() for a in m.group(2).split(",") if a.strip()]
    for m in re.finditer(r"'([^']+)' does not depend on any axioms", out):
        axioms[m.group(1)] = []
    if rc != 0:
        problems.append("axiom audit failed to run: " + out[-400:])
    discharged = 0
    for t in thms:
        if t not in axioms:
            problems.append("no axiom report for " + t)
            continue
        bad = [a for a in axioms[t] if a not in AX_WHITELIST]
        if bad:
            problems.append("%s uses non-whitelisted axioms %s" % (t, bad))
        else:
            discharged += 1
    return dict(ok=not problems, theorems=thms, examples=examples, axioms=axioms, problems=problems, discharged=discharged)


# ---------------------------------------------------------------- running the servers

SHARD_TIMEOUT = float(os.environ.get("VERIF_SHARD_TIMEOUT", "900"))


def _run_one(cmd, text, timeout=None):
    """run one server process on `text`; on timeout kill it and return what it had answered so far"""
    os.makedirs(WORK, exist_ok=True)
    fi = tempfile.NamedTemporaryFile("w", dir=WORK, suffix=".in", delete=False)
    fi.write(text); fi.close()
    fo = tempfile.NamedTemporaryFile("r", dir=WORK, suffix=".out", delete=False)
    timed_out = False
    with open(fi.name) as fin, open(fo.name, "w") as fout:
        p = subprocess.Popen(cmd, stdin=fin, stdout=fout, stderr=subprocess.PIPE, text=True)
        try:
            _, se = p.communicate(timeout=timeout or SHARD_TIMEOUT)
        except subprocess.TimeoutExpired:
            p.kill()
            _, se = p.communicate()
            timed_out = True
    so = open(fo.name).read()
    os.unlink(fi.name); os.unlink(fo.name)
    return (-9 if timed_out else p.returncode), so, se or ""


def run_server(cmd, lines, shards=None, timeout=None):
    """feed request lines to a server (round-robin over `shards` processes), return the answer lines in order.
    A request the server never answered is reported as `timeout` (the first one of a killed process), `crash ...`
    (the first one of a dead process) or `not-run` (those behind it)."""
    if not lines:
        return []
    n = len(lines)
    if shards is None:
        shards = NCPU if n >= 2 * NCPU else 1
    shards = max(1, min(shards, n))
    chunks = [lines[k::shards] for k in range(shards)]
    with ThreadPoolExecutor(max_workers=len(chunks)) as ex:
        res = list(ex.map(lambda c: _run_one(cmd, "\n".join(c) + "\n", timeout), chunks))
    out = [None] * n
    for k, ((rc, so, se), c) in enumerate(zip(res, chunks)):
        ans = so.split("\n")
        if ans and ans[-1] == "":
            ans = ans[:-1]
        if len(ans) > len(c):
            ans = ans[:len(c)]
        if len(ans) < len(c):
            first = "timeout" if rc == -9 else "crash rc=%s %s" % (rc, se.strip()[-120:])
            ans = ans + [first] + ["not-run"] * (len(c) - len(ans) - 1)
        for j, a in enumerate(ans):
            out[k + j * shards] = a
    return out


def run_model(lines, shards=None):
    return run_server([MODEL_BIN], lines, shards)


def run_impl(lines, profile="checked", shards=None):
    return run_server([harness_bin(profile)], lines, shards)


def compare(lines, model, checked, release):
    """agreement rule (DESIGN 2.5): model ok v => checked = ok v and release = ok v; model fault => checked fault.
    returns list of (index, kind) disagreements"""
    dis = []
    for i, (m, c, r) in enumerate(zip(model, checked, release)):
        if c == "@model":
            if m == "bad-request":
                dis.append((i, "bad-request"))
            continue
        if c == "timeout" or r == "timeout":
            dis.append((i, "impl-timeout"))
            continue
        if "not-run" in (m, c, r):
            continue
        if m == "@impl":
            if c == "bad-request":
                dis.append((i, "bad-request"))
            continue
        if m == "bad-request" or c == "bad-request":
            dis.append((i, "bad-request"))
        elif m.startswith("ok") and lines[i].startswith("sweep "):
            # per-chunk checksums "h" or "h/nfaults": the wrapping build is unspecified where the model faults
            if c != m:
                dis.append((i, "checked-differs"))
            else:
                mt, rt = m.split(), r.split()
                if len(mt) != len(rt) or any(("/" not in a) and a != b for a, b in zip(mt, rt)):
                    dis.append((i, "release-differs"))
        elif m.startswith("ok"):
            if c != m:
                dis.append((i, "checked-differs"))
            elif r != m:
                dis.append((i, "release-differs"))
        elif m == "fault":
            if c != "fault":
                dis.append((i, "model-fault-impl-ok"))
        else:
            dis.append((i, "model-answer-unparsable"))
    return dis


# ---------------------------------------------------------------- replay / evidence / result

def write_replay(prop_id, payload):
    os.makedirs(REPLAYS, exist_ok=True)
    k = 0
    while os.path.exists(os.path.join(REPLAYS, "%s-%d.json" % (prop_id, k))):
        k += 1
    path = os.path.join(REPLAYS, "%s-%d.json" % (prop_id, k))
    with open(path, "w") as f:
        json.dump(payload, f, indent=1)
    return path


def write_evidence(prop_id, tier, seed, coverage, wall, violations, assumptions):
    os.makedirs(EVIDENCE, exist_ok=True)
    ev = dict(property_id=prop_id, tier=tier, seed=seed, level="proof", coverage=coverage,
              assumptions=assumptions, wall_s=round(wall, 2), violations=violations)
    with open(os.path.join(EVIDENCE, prop_id + ".json"), "w") as f:
        json.dump(ev, f, indent=1)


def known_findings():
    """lines of known_findings.txt: 'finding: property=<id> key=<key> <text>' / 'fixed: property=<id> <sha> <text>'"""
    p = os.path.join(VERIF, "known_findings.txt")
    out = []
    if os.path.exists(p):
        for ln in open(p):
            ln = ln.strip()
            if ln and not ln.startswith("#"):
                out.append(ln)
    return out


class Rng:
    """one PRNG state per run, derived from VERIF_SEED"""
    def __init__(self, seed, salt=""):
        h = hashlib.sha256(("%d/%s" % (seed, salt)).encode()).digest()
        self.r = random.Random(int.from_bytes(h, "big"))

    def __getattr__(self, k):
        return getattr(self.r, k)
