"""The SPECIFICATION-level definitions the refinement theorems are stated with (Lemmas/XofSpec, BitSpec, EncodeSpec,
SampleInBall, UniformStream.cands, EtaStream.etaCands, Padding.padBytes, Spec/Rounding) are evaluated by lean/SpecEval.lean and
compared with independent oracles: hashlib for SHAKE, the Python transcription of FIPS 204 in pyspec.py for the rest.
This does not concern /repo: a mismatch means the specification transcription (part of the trusted base) is wrong, and
the check reports itself broken (exit 2), never a violation."""
import hashlib, os, subprocess
from . import core, pyspec as S

LEAN_MODULES = ["DilithiumVerif.Driver.Codec", "DilithiumVerif.Lemmas.XofSpec", "DilithiumVerif.Lemmas.SampleInBall",
                "DilithiumVerif.Lemmas.EncodeSpec", "DilithiumVerif.Lemmas.KeygenSpec", "DilithiumVerif.Spec.Rounding"]


def run_spec(lines):
    ok, out = core.lake_build(LEAN_MODULES)
    if not ok:
        return None, "lake build of the specification modules failed: " + out[-800:]
    p = subprocess.run(["lake", "env", "lean", "--run", "SpecEval.lean"], cwd=core.LEAN, input="\n".join(lines) + "\n",
                       capture_output=True, text=True, timeout=1800)
    ans = p.stdout.splitlines()
    if p.returncode != 0 or len(ans) != len(lines):
        return None, "SpecEval.lean failed (rc=%d, %d answers for %d requests): %s" % (p.returncode, len(ans), len(lines), (p.stderr or p.stdout)[-800:])
    return ans, None


def hx(b):
    return bytes(b).hex() if len(b) else "-"


def ints(l):
    return ",".join(str(x) for x in l) if l else "-"


def sib_stream(tau, stream):
    """FIPS 204 Alg. 29 on a finite stream prefix; None when the prefix runs out"""
    if tau == 0:
        return [0] * 256
    signs = int.from_bytes(bytes(stream[:8]) + bytes(8 - min(8, len(stream))), "little") if len(stream) >= 1 else 0
    signs = int.from_bytes(bytes(stream[:8]), "little")
    rest = list(stream[8:])
    c = [0] * 256
    pos = 0
    for i in range(256 - tau, 256):
        while True:
            if pos >= len(rest):
                return None
            j = rest[pos]
            pos += 1
            if j <= i:
                break
        c[i] = c[j]
        c[j] = 1 - 2 * (signs & 1)
        signs >>= 1
    return c


def cands_py(stream):
    out = []
    for i in range(0, len(stream) - 2, 3):
        t = stream[i] | (stream[i + 1] << 8) | ((stream[i + 2] & 0x7F) << 16)
        if t < S.Q:
            out.append(t)
    return out


def etacands_py(eta, stream):
    out = []
    for z in stream:
        for t in (z & 15, z >> 4):
            if eta == 2 and t < 15:
                out.append(2 - (t % 5))
            elif eta == 4 and t < 9:
                out.append(4 - t)
    return out


def make_hint_py(g2, z, r):
    return 1 if S.decompose(g2, r)[0] != S.decompose(g2, r + z)[0] else 0


def cases(groups, tier, rng):
    """list of (request line, expected answer)"""
    n = 1 if tier == "quick" else 6
    L = []
    if "shake" in groups:
        lens = sorted(set([0, 1, 2, 7, 8, 9, 31, 32, 33, 64, 66, 134, 135, 136, 137, 166, 167, 168, 169, 271, 272, 273, 335, 336, 337, 408, 409, 1000]
                          + [rng.randrange(0, 700) for _ in range(10 * n)]))
        for ln in lens:
            m = bytes(rng.randrange(256) for _ in range(ln))
            for out in (1, 32, 64, 135, 136, 137, 272, 273, 500):
                L.append(("shake256 %s %d" % (hx(m), out), "ok " + hashlib.shake_256(m).hexdigest(out)))
            for out in (1, 16, 167, 168, 169, 336, 840):
                L.append(("shake128 %s %d" % (hx(m), out), "ok " + hashlib.shake_128(m).hexdigest(out)))
        for r in (136, 168):
            for rem in range(r):
                exp = [0x9F] if rem == r - 1 else [0x1F] + [0] * (r - rem - 2) + [0x80]
                L.append(("pad %d %d" % (r, rem), "ok " + hx(exp)))
    if "bits" in groups:
        for bits, lo, hi in ((10, 0, 1023), (6, 0, 43), (4, 0, 15), (13, 0, 8191), (3, 0, 7), (18, 0, 2**18 - 1), (20, 0, 2**20 - 1)):
            for v in ([lo] * 256, [hi] * 256, [hi if i % 2 else lo for i in range(256)]) + tuple([rng.randrange(lo, hi + 1) for _ in range(256)] for _ in range(2 * n)):
                L.append(("sbp %d %s" % (bits, ints(v)), "ok " + hx(S.bits_pack(v, bits))))
        for b, bits, lo, hi in ((4096, 13, -4095, 4096), (2, 3, -2, 2), (4, 4, -4, 4), (1 << 17, 18, -(1 << 17) + 1, 1 << 17), (1 << 19, 20, -(1 << 19) + 1, 1 << 19)):
            for v in ([lo] * 256, [hi] * 256, [hi if i % 2 else lo for i in range(256)]) + tuple([rng.randrange(lo, hi + 1) for _ in range(256)] for _ in range(2 * n)):
                L.append(("bp %d %d %s" % (b, bits, ints(v)), "ok " + hx(S.bit_pack(v, b, bits))))
        for name in ("lvl2", "lvl3", "lvl5"):
            p = S.P(name)
            for _ in range(3 * n):
                w = rng.randrange(0, p.omega + 1)
                cells = rng.sample(range(256 * p.k), w)
                h = [[0] * 256 for _ in range(p.k)]
                for c in cells:
                    h[c // 256][c % 256] = 1
                L.append(("hbp %d %s" % (p.omega, ";".join(ints(r) for r in h)), "ok " + hx(S.hint_bit_pack(p, h))))
    if "samplers" in groups:
        for tau in (39, 49, 60):
            for _ in range(4 * n):
                seed = bytes(rng.randrange(256) for _ in range(32))
                st = hashlib.shake_256(seed).digest(136 * rng.choice((1, 1, 2)))
                if rng.randrange(4) == 0:
                    st = st[:rng.randrange(8, 60)]          # prefix that may run out
                c = sib_stream(tau, st)
                L.append(("sib %d %s" % (tau, hx(st)), "ok " + (ints(c) if c is not None else "none")))
        for _ in range(4 * n):
            st = hashlib.shake_128(bytes(rng.randrange(256) for _ in range(34))).digest(168 * rng.choice((1, 5)))
            L.append(("cands " + hx(st), "ok " + ints(cands_py(st))))
        L.append(("cands " + hx(bytes([0x01, 0xE0, 0x7F, 0x00, 0xE0, 0x7F, 0x01, 0xE0, 0xFF])), "ok " + ints(cands_py(bytes([0x01, 0xE0, 0x7F, 0x00, 0xE0, 0x7F, 0x01, 0xE0, 0xFF])))))
        for lv, eta in (("l2", 2), ("l3", 4), ("l5", 2)):
            for _ in range(3 * n):
                st = hashlib.shake_256(bytes(rng.randrange(256) for _ in range(66))).digest(136)
                L.append(("etacands %s %s" % (lv, hx(st)), "ok " + ints(etacands_py(eta, st))))
            L.append(("etacands %s %s" % (lv, hx(bytes(range(256)))), "ok " + ints(etacands_py(eta, bytes(range(256))))))
    if "rounding" in groups:
        for g2 in ((S.Q - 1) // 88, (S.Q - 1) // 32):
            pts = [0, 1, g2 - 1, g2, g2 + 1, 2 * g2 - 1, 2 * g2, 2 * g2 + 1, S.Q - 1 - g2, S.Q - g2, S.Q - 2, S.Q - 1] + [rng.randrange(S.Q) for _ in range(40 * n)]
            for r in pts:
                r1, r0 = S.decompose(g2, r)
                L.append(("highbits %d %d" % (g2, r), "ok %d" % r1))
                L.append(("lowbits %d %d" % (g2, r), "ok %d" % r0))
                for h in (0, 1):
                    L.append(("usehint %d %d %d" % (g2, h, r), "ok %d" % S.use_hint(g2, h, r)))
                z = rng.randrange(-g2, g2 + 1)
                L.append(("makehint %d %d %d" % (g2, z, r), "ok %d" % make_hint_py(g2, z, r)))
        for r in [0, 4095, 4096, 4097, 8191, 8192, S.Q - 1] + [rng.randrange(S.Q) for _ in range(20 * n)]:
            r0 = S.modpm(r % S.Q, 8192)
            L.append(("p2r %d" % r, "ok %d %d" % ((r % S.Q - r0) // 8192, r0)))
    return L


def check(groups, tier, rng):
    """returns (number of comparisons, list of problems)"""
    cs = cases(groups, tier, rng)
    ans, err = run_spec([c[0] for c in cs])
    if err:
        return len(cs), [err]
    bad = ["%s: specification gives %s, oracle gives %s" % (c[0][:120], a[:80], c[1][:80]) for c, a in zip(cs, ans) if a != c[1]]
    return len(cs), bad
