"""Independent Python transcription of the pieces of FIPS 204 / Dilithium 3.1 that the ties use as the
*property oracle* on the implementation's answers (never as a proof): bit packing (Alg. 16-21), rejection
samplers (Alg. 29-34), NTT as plain evaluation, hint encoding. SHAKE comes from hashlib."""
import hashlib

Q = 8380417
N = 256
D = 13

PARAMS = {
    #            k  l  eta tau beta gamma1   gamma2          omega ctilde tr
    "lvl2":      (4, 4, 2, 39, 78, 1 << 17, (Q - 1) // 88, 80, 32, 32),
    "lvl3":      (6, 5, 4, 49, 196, 1 << 19, (Q - 1) // 32, 55, 32, 32),
    "lvl5":      (8, 7, 2, 60, 120, 1 << 19, (Q - 1) // 32, 75, 32, 32),
    "ml_dsa_44": (4, 4, 2, 39, 78, 1 << 17, (Q - 1) // 88, 80, 32, 64),
    "ml_dsa_65": (6, 5, 4, 49, 196, 1 << 19, (Q - 1) // 32, 55, 48, 64),
    "ml_dsa_87": (8, 7, 2, 60, 120, 1 << 19, (Q - 1) // 32, 75, 64, 64),
}
LVL = {"lvl2": "lvl2", "lvl3": "lvl3", "lvl5": "lvl5", "ml_dsa_44": "lvl2", "ml_dsa_65": "lvl3", "ml_dsa_87": "lvl5"}


class P:
    def __init__(self, name):
        (self.k, self.l, self.eta, self.tau, self.beta, self.gamma1, self.gamma2, self.omega, self.ctilde, self.tr) = PARAMS[name]
        self.name = name
        self.mldsa = name.startswith("ml_dsa")
        self.zbits = 18 if self.gamma1 == 1 << 17 else 20
        self.etabits = 3 if self.eta == 2 else 4
        self.w1bits = 6 if self.gamma2 == (Q - 1) // 88 else 4
        self.polyz = 32 * self.zbits
        self.polyeta = 32 * self.etabits
        self.polyw1 = 32 * self.w1bits
        self.pk = 32 + 320 * self.k
        self.sk = 64 + self.tr + self.polyeta * (self.k + self.l) + 416 * self.k
        self.sig = self.ctilde + self.l * self.polyz + self.omega + self.k


# ---- Algorithms 16-19: (Simple)BitPack / BitUnpack via integer-to-bits, little endian
def bits_pack(vals, nbits):
    acc = 0
    for i, v in enumerate(vals):
        assert 0 <= v < (1 << nbits), "value does not fit"
        acc |= v << (i * nbits)
    return acc.to_bytes((len(vals) * nbits + 7) // 8, "little")


def bits_unpack(b, nbits, n=N):
    acc = int.from_bytes(b, "little")
    return [(acc >> (i * nbits)) & ((1 << nbits) - 1) for i in range(n)]


def simple_bit_pack(w, nbits):
    return bits_pack(w, nbits)


def bit_pack(w, b, nbits):
    return bits_pack([b - x for x in w], nbits)


def bit_unpack(by, b, nbits):
    return [b - v for v in bits_unpack(by, nbits)]


# ---- Algorithms 20/21: hints
def hint_bit_pack(p, h):
    y = [0] * (p.omega + p.k)
    idx = 0
    for i in range(p.k):
        for j in range(N):
            if h[i][j] != 0:
                y[idx] = j
                idx += 1
        y[p.omega + i] = idx
    return bytes(y)


def hint_bit_unpack(p, y):
    h = [[0] * N for _ in range(p.k)]
    idx = 0
    for i in range(p.k):
        if y[p.omega + i] < idx or y[p.omega + i] > p.omega:
            return None
        first = idx
        while idx < y[p.omega + i]:
            if idx > first and y[idx - 1] >= y[idx]:
                return None
            h[i][y[idx]] = 1
            idx += 1
    for i in range(idx, p.omega):
        if y[i] != 0:
            return None
    return h


# ---- samplers
def shake128(d, n):
    return hashlib.shake_128(d).digest(n)


def shake256(d, n):
    return hashlib.shake_256(d).digest(n)


def rej_ntt_poly(seed34):
    out = []
    n = 840
    while True:
        s = shake128(seed34, n)
        out = []
        for i in range(0, len(s) - 2, 3):
            t = s[i] | (s[i + 1] << 8) | ((s[i + 2] & 0x7F) << 16)
            if t < Q:
                out.append(t)
                if len(out) == N:
                    return out
        n += 168


def rej_bounded_poly(eta, seed66):
    n = 136
    while True:
        s = shake256(seed66, n)
        out = []
        for z in s:
            for t in (z & 15, z >> 4):
                if eta == 2 and t < 15:
                    out.append(2 - (t % 5))
                elif eta == 4 and t < 9:
                    out.append(4 - t)
                if len(out) == N:
                    return out
        n += 136


def expand_mask_poly(p, seed66):
    s = shake256(seed66, p.polyz)
    return bit_unpack(s, p.gamma1, p.zbits)


def sample_in_ball(p, ctilde):
    n = 136
    while True:
        s = shake256(ctilde, n)
        signs = int.from_bytes(s[:8], "little")
        c = [0] * N
        pos = 8
        ok = True
        for i in range(N - p.tau, N):
            while True:
                if pos >= len(s):
                    ok = False
                    break
                j = s[pos]
                pos += 1
                if j <= i:
                    break
            if not ok:
                break
            c[i] = c[j]
            c[j] = 1 - 2 * (signs & 1)
            signs >>= 1
        if ok:
            return c
        n += 136


# ---- NTT as plain evaluation at zeta^(2*brv8(i)+1), zeta = 1753
def brv8(i):
    return int("{:08b}".format(i)[::-1], 2)


ROOTS = [pow(1753, 2 * brv8(i) + 1, Q) for i in range(N)]


def ntt_eval(a):
    out = []
    for r in ROOTS:
        acc = 0
        for c in reversed(a):
            acc = (acc * r + c) % Q
        out.append(acc)
    return out


def negacyclic_mul(a, b):
    c = [0] * N
    for i, x in enumerate(a):
        if x == 0:
            continue
        for j, y in enumerate(b):
            k = i + j
            if k < N:
                c[k] = (c[k] + x * y) % Q
            else:
                c[k - N] = (c[k - N] - x * y) % Q
    return c


def modpm(r, alpha):
    r0 = r % alpha
    return r0 - alpha if r0 > alpha // 2 else r0


def decompose(g2, r):
    rp = r % Q
    r0 = modpm(rp, 2 * g2)
    if rp - r0 == Q - 1:
        return 0, r0 - 1
    return (rp - r0) // (2 * g2), r0


def use_hint(g2, h, r):
    m = (Q - 1) // (2 * g2)
    r1, r0 = decompose(g2, r)
    if h == 1 and r0 > 0:
        return (r1 + 1) % m
    if h == 1 and r0 <= 0:
        return (r1 - 1) % m
    return r1


_ETA_TAB = {}


def eta_accepts(eta, stream):
    """number of accepted nibbles in the byte string (C-speed: translate each byte to its count, then count)"""
    if eta not in _ETA_TAB:
        lim = 15 if eta == 2 else 9
        _ETA_TAB[eta] = bytes(((z & 15) < lim) + ((z >> 4) < lim) for z in range(256))
    t = stream.translate(_ETA_TAB[eta])
    return t.count(1) + 2 * t.count(2)


def find_eta_seeds(eta, blocks, rng, want=2, budget=400000):
    """(seed64, nonce) pairs whose first `blocks` SHAKE-256 blocks yield fewer than 256 accepted nibbles, i.e. the sampler
    needs block number blocks+1 (eta = 4, blocks = 2: about 1 stream in 10^5)"""
    out = []
    base = bytes(rng.randrange(256) for _ in range(60))
    for i in range(budget):
        seed = base + i.to_bytes(4, "little")
        nonce = i & 0xFFFF
        st = hashlib.shake_256(seed + bytes([nonce & 255, nonce >> 8])).digest(136 * blocks)
        if eta_accepts(eta, st) < 256:
            out.append((seed, nonce))
            if len(out) >= want:
                break
    return out


def find_keygen_seed_eta_refill(p, blocks, rng, budget=60000):
    """a 32-byte key generation seed for which some s1/s2 polynomial needs more than `blocks` SHAKE-256 blocks"""
    base = bytes(rng.randrange(256) for _ in range(28))
    for i in range(budget):
        xi = i.to_bytes(4, "little") + base
        inp = xi + (bytes([p.k, p.l]) if p.mldsa else b"")
        rhop = hashlib.shake_256(inp).digest(128)[32:96]
        for n in range(p.k + p.l):
            st = hashlib.shake_256(rhop + bytes([n, 0])).digest(136 * blocks)
            if eta_accepts(p.eta, st) < 256:
                return xi
    return None


def find_keygen_seeds_t_band(name, rng, budget=4000, band=6, want=2):
    """key seeds for which a coefficient of t = A*s1 + s2 mod q lies within `band` of 0 or q (tools/dvcheck/kgsearch.py,
    run under the tooling python with numpy; [] when that interpreter is missing)"""
    import subprocess, os, shutil
    exe = shutil.which("python3-vt")
    if not exe:
        return []
    here = os.path.join(os.path.dirname(os.path.abspath(__file__)), "kgsearch.py")
    try:
        out = subprocess.run([exe, here, name, str(rng.randrange(1 << 40)), str(budget), str(band), str(want)],
                             capture_output=True, text=True, timeout=600).stdout
    except Exception:
        return []
    return [bytes.fromhex(x) for x in out.split() if len(x) == 64]


def keygen_pk_oracle(name, xi):
    """the public key FIPS 204 / Dilithium 3.1 prescribe for seed xi, computed with numpy + hashlib (None if unavailable)"""
    import subprocess, os, shutil
    exe = shutil.which("python3-vt")
    if not exe:
        return None
    here = os.path.join(os.path.dirname(os.path.abspath(__file__)), "kgsearch.py")
    try:
        out = subprocess.run([exe, here, "pk", name, xi.hex()], capture_output=True, text=True, timeout=120).stdout.split()
    except Exception:
        return None
    return bytes.fromhex(out[0]) if out else None
