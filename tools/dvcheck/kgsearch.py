#!/usr/bin/env python3-vt
"""Boundary-seeking search for key-generation seeds, independent of the code under test (hashlib + numpy):
seeds for which some coefficient of t = A*s1 + s2 (mod q) lies within `band` of 0 or q (band = 0: seeds for which
adding s2 to the standard representative of A*s1 leaves [0, q)) — where the order of the
conditional addition of q, the addition of s2 and Power2Round matters (about one seed in a few thousand).
usage: kgsearch.py <set> <seed-int> <budget> <band> <want>      prints up to `want` wrap seeds and `want` band seeds
       kgsearch.py pk <set> <seedhex>                         prints the specified public key"""
import sys, os, hashlib
import numpy as np
sys.path.insert(0, os.path.dirname(os.path.dirname(os.path.abspath(__file__))))
from dvcheck import pyspec as S

Q = S.Q
_V = None


def mats():
    global _V
    if _V is None:
        V = np.zeros((256, 256), dtype=np.int64)
        Vi = np.zeros((256, 256), dtype=np.int64)
        ninv = pow(256, -1, Q)
        for i, r in enumerate(S.ROOTS):
            ri = pow(r, -1, Q)
            x = 1; y = ninv
            for j in range(256):
                V[i, j] = x; Vi[j, i] = y
                x = x * r % Q; y = y * ri % Q
        _V = (V, Vi)
    return _V


def t_of(p, xi):
    V, Vi = mats()
    inp = xi + (bytes([p.k, p.l]) if p.mldsa else b"")
    h = hashlib.shake_256(inp).digest(128)
    rho, rhop = h[:32], h[32:96]
    s1 = np.array([S.rej_bounded_poly(p.eta, rhop + bytes([j, 0])) for j in range(p.l)], dtype=np.int64)
    s2 = np.array([S.rej_bounded_poly(p.eta, rhop + bytes([p.l + r, 0])) for r in range(p.k)], dtype=np.int64)
    s1h = (V @ (s1.T % Q)) % Q                                  # 256 x l
    out = []
    for r in range(p.k):
        acc = np.zeros(256, dtype=np.int64)
        for j in range(p.l):
            a = np.array(S.rej_ntt_poly(rho + bytes([j, r])), dtype=np.int64)
            acc = (acc + a * s1h[:, j]) % Q
        t = (Vi @ acc) % Q + s2[r]          # not reduced: < 0 or >= q exactly when adding s2 crosses the ends of [0, q)
        out.append(t)
    return np.array(out)


def pk_of(p, xi):
    """the public key the specification prescribes for the seed (rho || SimpleBitPack(t1, 10 bits))"""
    inp = xi + (bytes([p.k, p.l]) if p.mldsa else b"")
    rho = hashlib.shake_256(inp).digest(32)
    t = t_of(p, xi) % Q
    t1 = (t + 4095) >> 13
    return rho + b"".join(S.bits_pack([int(x) for x in row], 10) for row in t1)


def scan(args):
    name, base, lo, hi, band = args
    p = S.P(name)
    wrap, near = [], []
    for i in range(lo, hi):
        xi = hashlib.sha256(b"kgsearch" + base.to_bytes(8, "little") + i.to_bytes(8, "little")).digest()
        t = t_of(p, xi)
        if ((t < 0) | (t >= Q)).any():                 # the addition of s2 wraps around q
            wrap.append(xi.hex())
        elif ((t % Q < band) | (t % Q >= Q - band)).any():
            near.append(xi.hex())
    return wrap, near


if __name__ == "__main__":
    if sys.argv[1] == "pk":
        print(pk_of(S.P(sys.argv[2]), bytes.fromhex(sys.argv[3])).hex())
        sys.exit(0)
    name, base, budget, band, want = sys.argv[1], int(sys.argv[2]), int(sys.argv[3]), int(sys.argv[4]), int(sys.argv[5])
    import multiprocessing as mp
    n = max(1, min(16, mp.cpu_count()))
    step = (budget + n - 1) // n
    with mp.Pool(n) as pool:
        res = pool.map(scan, [(name, base, k * step, min(budget, (k + 1) * step), band) for k in range(n)])
    wrap = [x for r in res for x in r[0]]
    near = [x for r in res for x in r[1]]
    for x in wrap[:want] + near[:want]:
        print(x)
