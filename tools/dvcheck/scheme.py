"""Helpers shared by the scheme-level ties (C01-C11): request builders and framing."""
import hashlib
from . import pyspec as S

SETS = ["lvl2", "lvl3", "lvl5", "ml_dsa_44", "ml_dsa_65", "ml_dsa_87"]
MLDSA = ["ml_dsa_44", "ml_dsa_65", "ml_dsa_87"]
API = {"lvl2": "dilithium2", "lvl3": "dilithium3", "lvl5": "dilithium5", "ml_dsa_44": "ml_dsa_44", "ml_dsa_65": "ml_dsa_65", "ml_dsa_87": "ml_dsa_87"}
OID = {"sha256": bytes([0x06, 0x09, 0x60, 0x86, 0x48, 0x01, 0x65, 0x03, 0x04, 0x02, 0x01]),
       "sha512": bytes([0x06, 0x09, 0x60, 0x86, 0x48, 0x01, 0x65, 0x03, 0x04, 0x02, 0x03])}
SIBLING = {"lvl2": "ml_dsa_44", "ml_dsa_44": "lvl2", "lvl3": "ml_dsa_65", "ml_dsa_65": "lvl3", "lvl5": "ml_dsa_87", "ml_dsa_87": "lvl5"}


def hx(b):
    return bytes(b).hex() if len(b) else "-"


def unhx(s):
    return bytes.fromhex(s) if s != "-" else b""


def ctxs(c):
    return "none" if c is None else hx(c)


def digest(ph, msg):
    return hashlib.sha256(msg).digest() if ph == "sha256" else hashlib.sha512(msg).digest()


def frame(msg, ctx, ph=None):
    """FIPS 204 message representative M' (None when the context is too long)"""
    c = b"" if ctx is None else ctx
    if len(c) > 255:
        return None
    if ph is None:
        return bytes([0, len(c)]) + c + msg
    return bytes([1, len(c)]) + c + OID[ph] + digest(ph, msg)


def keygen(s, seed):
    return "sign::%s::keypair %s -" % (s, hx(seed))


def keys_of(ans):
    t = ans.split()
    return t[1], t[2]      # pk, sk (hex)


def sign_raw(s, msg, sk_hex, rnd=0, tape=b""):
    return "sign::%s::signature %s %s %d %s" % (s, hx(msg), sk_hex, rnd, hx(tape))


def verify_raw(s, sig_hex, msg, pk_hex):
    return "sign::%s::verify %s %s %s" % (s, sig_hex, hx(msg), pk_hex)


def api_sign(s, sk_hex, msg, ctx=None, hedged=0, tape=b""):
    return "%s::SecretKey::sign %s %s %s %d %s" % (API[s], sk_hex, hx(msg), ctxs(ctx), hedged, hx(tape))


def api_prehash_sign(s, sk_hex, msg, ctx, hedged, ph, tape=b""):
    return "%s::SecretKey::prehash_sign %s %s %s %d %s %s %s" % (API[s], sk_hex, hx(msg), ctxs(ctx), hedged, ph, hx(tape), hx(digest(ph, msg)))


def api_verify(s, pk_hex, msg, sig_hex, ctx=None):
    return "%s::PublicKey::verify %s %s %s %s" % (API[s], pk_hex, hx(msg), sig_hex, ctxs(ctx))


def api_prehash_verify(s, pk_hex, msg, sig_hex, ctx, ph):
    return "%s::PublicKey::prehash_verify %s %s %s %s %s %s" % (API[s], pk_hex, hx(msg), sig_hex, ctxs(ctx), ph, hx(digest(ph, msg)))


def sig_of(ans):
    """hex signature from an `ok <hex>` / `ok none` answer"""
    if not ans.startswith("ok "):
        return None
    v = ans.split()[1]
    return None if v == "none" else v


def craft_sk(s, sk_hex, m, frac=1.0, rng=None):
    """secret key whose first m t0 polynomials carry extreme coefficients (+4096 / -4095) in a fraction `frac` of
    the positions: reaches the ||c t0|| and hint-count rejections that honest keys reach with negligible probability.
    Everything else (rho, K, tr, s1, s2) is kept, so the key still encodes and decodes."""
    p = S.P(s)
    sk = bytearray(bytes.fromhex(sk_hex))
    off = 64 + p.tr + p.polyeta * (p.k + p.l)
    for i in range(m):
        old = S.bit_unpack(bytes(sk[off + 416 * i: off + 416 * (i + 1)]), 4096, 13)
        new = []
        for j in range(256):
            if rng is None or rng.random() < frac:
                new.append((4096 if j % 2 == 0 else -4095) if rng is None else rng.choice((4096, -4095)))
            else:
                new.append(old[j])
        sk[off + 416 * i: off + 416 * (i + 1)] = S.bit_pack(new, 4096, 13)
    return bytes(sk).hex()


def zero_key(s, rho, key):
    """(pk_hex, sk_hex) of the degenerate key s1 = s2 = 0, hence t = A s1 + s2 = 0, t1 = t0 = 0, for the given rho and K:
    a key pair the specification allows (KeyGen could produce it), whose signatures have ||c t0|| = 0 and therefore NO hints
    (every hint row empty) and z = y. Built with the independent bit-packing of pyspec."""
    import hashlib
    p = S.P(s)
    zero = [0] * 256
    pk = rho + S.simple_bit_pack(zero, 10) * p.k
    tr = hashlib.shake_256(pk).digest(p.tr)
    sk = rho + key + tr + S.bit_pack(zero, p.eta, p.etabits) * (p.l + p.k) + S.bit_pack(zero, 4096, 13) * p.k
    assert len(pk) == p.pk and len(sk) == p.sk
    return pk.hex(), sk.hex()
