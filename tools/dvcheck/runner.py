"""Generic flow of one property check (DESIGN.md §4)."""
import os, sys, time, json, importlib
from . import core
from .core import log


def bisect_sweep(line, prof="checked"):
    """`sweep fn lo hi chunk rest..` whose checksums differ between model and implementation:
    narrow down to the first differing input, return the scalar request line for it (or None)."""
    t = line.split()
    fn, lo, hi, chunk, rest = t[1], int(t[2]), int(t[3]), int(t[4]), t[5:]
    while True:
        req = "sweep %s %d %d %d %s" % (fn, lo, hi, chunk, " ".join(rest))
        m = core.run_model([req], shards=1)[0].split()[1:]
        c = core.run_impl([req], prof, shards=1)[0].split()[1:]
        idx = next((i for i, (a, b) in enumerate(zip(m, c)) if a != b and not (prof == "release" and "/" in a)), None)
        if idx is None:
            return None
        lo2 = lo + idx * chunk
        hi2 = min(hi, lo2 + chunk)
        if chunk == 1:
            return "%s %d %s" % (fn, lo2, " ".join(rest))
        lo, hi = lo2, hi2
        chunk = max(1, chunk // 256)


class Result:
    def __init__(self):
        self.violations = []     # dicts: key, what, replay payload, failing_input_found
        self.known = []
        self.notes = []


def run_property(mod, tier, seed, replay=None):
    t0 = time.time()
    if "VERIF_SHARD_TIMEOUT" not in os.environ:
        core.SHARD_TIMEOUT = 240.0 if tier == "quick" else 3600.0
    pid = mod.ID
    rng = core.Rng(seed, pid)
    res = Result()
    cov = {}
    const_status = core.regen_constants()
    log(const_status)
    cov["constants"] = const_status

    # 1. model driver + theorems
    ok_model, out_model = core.lake_build(["model"])
    ok_thm, out_thm = core.lake_build(["DilithiumVerif.Props." + pid])
    broken_obligations = []
    aud = None
    if ok_thm:
        aud = core.audit(pid)
        if not aud["ok"]:
            broken_obligations += aud["problems"]
    else:
        errs = [l for l in out_thm.splitlines() if "error" in l][:6]
        broken_obligations.append("lake build DilithiumVerif.Props.%s failed: %s" % (pid, " | ".join(errs)))
    thms, examples = core.theorems_of(pid)
    cov["obligations"] = len(thms)
    cov["discharged"] = aud["discharged"] if aud else 0
    cov["nonvacuity_examples"] = examples
    cov["theorems"] = thms
    cov["checker_cmd"] = "cd lean && lake build DilithiumVerif.Props.%s && lake env lean <#print axioms for each theorem>" % pid
    cov["axioms_used"] = sorted({a for t in (aud["axioms"].values() if aud else []) for a in t})

    # 1a. thorough tier: independent kernel re-check of the compiled modules the property theorems depend on
    if ok_thm and tier == "thorough" and not replay:
        okc, infoc = core.leancheck(pid)
        cov["kernel_recheck"] = dict(tool="leanchecker (Lean 4.33.0)", **infoc)
        log("leanchecker: %s" % infoc)
        if not okc:
            broken_obligations.append("leanchecker rejects a compiled module needed by Props/%s: %s" % (pid, infoc.get("error", "")[:300]))

    # 1b. the specification-level definitions the refinement theorems are stated with, against independent oracles
    if ok_thm and getattr(mod, "SPEC_ORACLE", None) and not replay:
        from . import specoracle
        nspec, badspec = specoracle.check(set(mod.SPEC_ORACLE), tier, core.Rng(seed, pid + "/spec"))
        cov["spec_oracle"] = dict(groups=sorted(mod.SPEC_ORACLE), comparisons=nspec, mismatches=len(badspec),
                                  what="lean/SpecEval.lean evaluates XofSpec.SHAKE128/256, Padding.padBytes, BitSpec.simpleBitPack/bitPack, "
                                       "EncodeSpec.hintBitPack, SampleInBall.sampleInBall, UniformStream.cands, EtaStream.etaCands, Spec.Rounding; "
                                       "oracles: hashlib and tools/dvcheck/pyspec.py")
        log("spec oracle: %d comparisons, %d mismatches" % (nspec, len(badspec)))
        if badspec:
            print("ERROR: the specification transcription disagrees with its independent oracle (%d case(s)), first: %s" % (len(badspec), badspec[0]))
            return 2

    # 2. harness from /repo's working tree
    ok_h, out_h = core.harness_build()
    if not ok_h:
        print("ERROR: harness/repo does not build:\n" + out_h[-3000:])
        return 2
    if not ok_model:
        print("ERROR: model driver does not build:\n" + out_model[-3000:])
        broken_obligations.append("model driver failed to build")

    # 3. the tie (possibly several stages: a module may derive follow-up requests from earlier answers)
    def answer_all(ls):
        midx = [i for i, l in enumerate(ls) if not l.startswith("@impl ")]
        shards = getattr(mod, "SHARDS", None)
        m_part = core.run_model([ls[i][7:] if ls[i].startswith("@model ") else ls[i] for i in midx], shards) if ok_model else ["bad-request"] * len(midx)
        m = ["@impl"] * len(ls)
        for j, i in enumerate(midx):
            m[i] = m_part[j]
        idx = [i for i, l in enumerate(ls) if not l.startswith("@model ")]
        ils = [ls[i][6:] if ls[i].startswith("@impl ") else ls[i] for i in idx]
        c_part = core.run_impl(ils, "checked", getattr(mod, "IMPL_SHARDS", shards))
        r_part = core.run_impl(ils, "release", getattr(mod, "IMPL_SHARDS", shards))
        c = ["@model"] * len(ls); r = ["@model"] * len(ls)
        for j, i in enumerate(idx):
            c[i] = c_part[j]; r[i] = r_part[j]
        return m, c, r
    if replay:
        payload = json.load(open(replay))
        lines = payload.get("requests", [])
    else:
        lines = mod.requests(tier, rng)
    tA = time.time()
    model, checked, release = answer_all(lines)
    stage = 1
    while hasattr(mod, "followup") and not replay and stage < 6:
        more = mod.followup(stage, lines, model, checked, release, tier, rng)
        if not more:
            break
        m2, c2, r2 = answer_all(more)
        lines += more; model += m2; checked += c2; release += r2
        stage += 1
    tC = time.time()
    dis = core.compare(lines, model, checked, release) if ok_model else []
    log("tie: %d requests, %d stage(s), %.1fs, %d disagreements" % (len(lines), stage, tC - tA, len(dis)))

    # 3b. the model itself is answerable to external oracles (hashlib, KAT files) where the module has one
    if ok_model and hasattr(mod, "expected"):
        bad = []
        for i, ln in enumerate(lines):
            e = mod.expected(ln)
            if e is not None and model[i] != (e if isinstance(e, str) else "ok " + (e.hex() if e else "-")):
                bad.append(ln[:200])
        cov["model_vs_external_oracle_mismatches"] = len(bad)
        if bad:
            print("ERROR: the Lean model disagrees with its external oracle on %d request(s), first: %s" % (len(bad), bad[0]))
            return 2

    # 4. property predicate on the implementation's own answers (independent of the model)
    pv = []
    if hasattr(mod, "violated"):
        for i, ln in enumerate(lines):
            if checked[i] == "@model":
                continue
            msg = mod.violated(ln, checked[i], release[i])
            if msg:
                pv.append((i, msg))
    if hasattr(mod, "violated_all"):
        pv += mod.violated_all(lines, model, checked, release)
    # twins: pairs of requests (variant, reference) that the property says must be answered identically by the
    # implementation (the same operation reached through another entry point, buffer size or memory layout)
    tw = getattr(mod, "TWINS", None)
    if tw:
        where = {}
        for i, ln in enumerate(lines):
            where.setdefault(ln, i)
        cov["twin_pairs"] = 0
        for (a, b, what) in tw:
            if a in where and b in where:
                ia, ib = where[a], where[b]
                cov["twin_pairs"] += 1
                for prof, ans in (("checked", checked), ("wrapping", release)):
                    if not ans[ia].startswith("ok") and ans[ib].startswith("ok"):
                        cov["twin_variants_refused"] = cov.get("twin_variants_refused", 0) + 1      # a refusal is not a wrong answer
                        continue
                    if ans[ia] != ans[ib] and "@model" not in (ans[ia], ans[ib]):
                        pv.append((ia, "%s build: %s -- %s answers %s..., the reference call %s answers %s..." % (
                            prof, what, a.replace("@impl ", "").split()[0], ans[ia][:60], b.replace("@impl ", "").split()[0], ans[ib][:60])))
                        break
    for i, ln in enumerate(lines):
        for prof, ans in (("checked", checked), ("wrapping", release)):
            if ans[i] == "timeout" and (model[i].startswith("ok") or model[i] == "@impl"):
                pv.append((i, "%s build: %s did not return within %.0f s (the model answers at once): the operation does not terminate on this input" % (prof, ln.replace("@impl ", "").split()[0], core.SHARD_TIMEOUT)))
    # expand sweep disagreements to a concrete input, then evaluate the predicate there
    extra = []
    for (i, kind) in dis[:8]:
        if lines[i].startswith("sweep "):
            prof = "release" if kind == "release-differs" else "checked"
            one = bisect_sweep(lines[i], prof)
            if one:
                extra.append(one)
    if (dis or broken_obligations) and hasattr(mod, "search"):
        extra += mod.search(tier, rng)
    if extra:
        em, ec, er = answer_all(extra)
        for j, ln in enumerate(extra):
            msg = mod.violated(ln, ec[j], er[j]) if hasattr(mod, "violated") and ec[j] != "@model" else None
            if msg:
                pv.append((len(lines) + j, msg))
        lines = lines + extra; model += em; checked += ec; release += er
        dis = core.compare(lines, model, checked, release) if ok_model else dis

    if hasattr(mod, "model_assumption_broken"):
        broken_obligations += mod.model_assumption_broken()

    # 5. verdicts
    kf = core.known_findings()
    def is_known(key):
        return any(l.startswith("finding:") and ("property=%s " % pid) in l and ("key=%s " % key) in l + " " for l in kf)

    if pv:
        i, msg = pv[0]
        key = mod.finding_key(lines[i]) if hasattr(mod, "finding_key") else lines[i].split()[0]
        ridx = [i] + (mod.replay_with(lines, i) if hasattr(mod, "replay_with") else [])
        payload = dict(property=pid, tier=tier, seed=seed, kind="property-fails-on-implementation", what=msg, key=key,
                       requests=[lines[k] for k in ridx], model=[model[k] for k in ridx],
                       impl_checked=[checked[k] for k in ridx], impl_release=[release[k] for k in ridx],
                       other_failing=[dict(request=lines[k][:300], what=m) for k, m in pv[1:6]])
        res.violations.append((key, msg, payload, True))
    elif dis or broken_obligations:
        what = []
        if broken_obligations:
            what += broken_obligations
        if dis:
            what.append("correspondence model/implementation broke on %d request(s), first: %s" % (len(dis), lines[dis[0][0]][:200]))
        key = "correspondence" if dis else "proof-obligation"
        payload = dict(property=pid, tier=tier, seed=seed, kind="no-failing-input-found",
                       no_longer_checks=what,
                       requests=[lines[i] for i, _ in dis[:5]], model=[model[i] for i, _ in dis[:5]],
                       impl_checked=[checked[i] for i, _ in dis[:5]], impl_release=[release[i] for i, _ in dis[:5]],
                       kinds=[k for _, k in dis[:5]])
        res.violations.append((key, "; ".join(what)[:500], payload, False))

    # 6. evidence
    nontriv = set()
    if hasattr(mod, "nontrivial"):
        for ln, m in zip(lines, model):
            if mod.nontrivial(ln, m):
                nontriv.add(ln)
    cov["evaluations"] = len(lines) + sum(mod.weight(l) - 1 for l in lines) if hasattr(mod, "weight") else len(lines)
    cov["distinct_nontrivial"] = len(nontriv)
    cov["rule"] = getattr(mod, "RULE", "")
    cov["samples"] = [dict(request=l[:400], model=m[:200], impl=c[:200]) for l, m, c in list(zip(lines, model, checked))[:: max(1, len(lines) // 6)][:8]]
    cov["tie_disagreements"] = len(dis)
    # which entry points of the crate / of the harness the requests of this run addressed, and how often
    kinds = {}
    for l in lines:
        for part in (l[len("@impl sequence "):].split(";;") if l.startswith("@impl sequence ") else [l]):
            t = part.replace("@impl ", "").replace("@model ", "").split()
            if t and t[0] in ("rnglog", "sweep", "interleave", "freshthreads") and len(t) > 1:
                t = [x for x in t[1:] if "::" in x][:1] or t
            if t:
                kinds[t[0]] = kinds.get(t[0], 0) + 1
    cov["entry_points_addressed"] = dict(sorted(kinds.items()))
    cov["exhaustive"] = bool(getattr(mod, "exhaustive", lambda t: False)(tier))
    cov["trusted_base"] = core_trusted() + list(getattr(mod, "TRUSTED", []))
    cov["explanation"] = getattr(mod, "EXPLANATION", "")
    if hasattr(mod, "stats"):
        cov["distribution"] = mod.stats(lines, model)
    real_viol = 0
    rc = 0
    for key, msg, payload, found in res.violations:
        if is_known(key):
            print("KNOWN-FINDING: property=%s %s" % (pid, msg[:300]))
            continue
        path = core.write_replay(pid, payload)
        real_viol += 1
        rc = 1
        print("VIOLATION property=%s replay=%s%s" % (pid, path, "" if found else " no-failing-input-found"))
    core.write_evidence(pid, tier, seed, cov, time.time() - t0, real_viol, list(getattr(mod, "ASSUMPTIONS", [])))
    if rc == 0:
        print("OK property=%s tier=%s obligations=%d discharged=%d requests=%d wall=%.1fs" %
              (pid, tier, cov["obligations"], cov["discharged"], len(lines), time.time() - t0))
    return rc


def core_trusted():
    return [
        "Lean 4.33.0 kernel; axioms propext, Classical.choice, Quot.sound only (audited with #print axioms on every property theorem)",
        "statements in lean/DilithiumVerif/Props and the specification-level definitions they use (lean/DilithiumVerif/Spec, Lemmas/XofSpec, BitSpec, EncodeSpec, SampleInBall, KeygenSpec, VerifyFips, SignSpec): their building blocks are compared with hashlib / an independent Python transcription on every run (spec oracle), the relations are read against FIPS 204 (DESIGN App. D), not proved against the PDFs",
        "correspondence check: tools/dvcheck, harness/ (Rust), lean/Main.lean driver and the Lean compiler that builds it; differential, exhaustive only where stated",
        "Rust integer semantics as encoded in Impl/Basic.lean (checked build = fault on overflow; wrapping casts and shifts)",
    ]
