"""C04 — key generation is the specification's function of the seed."""
import json, os
from .. import core
ID = "C04"
SPEC_ORACLE = ['shake', 'bits', 'samplers', 'rounding']   # specification definitions used by Props/C04.lean are compared with hashlib / pyspec on every run
SETS = ["lvl2", "lvl3", "lvl5", "ml_dsa_44", "ml_dsa_65", "ml_dsa_87"]
API = {"lvl2": "dilithium2", "lvl3": "dilithium3", "lvl5": "dilithium5", "ml_dsa_44": "ml_dsa_44", "ml_dsa_65": "ml_dsa_65", "ml_dsa_87": "ml_dsa_87"}
PK = {"lvl2": 1312, "lvl3": 1952, "lvl5": 2592, "ml_dsa_44": 1312, "ml_dsa_65": 1952, "ml_dsa_87": 2592}
SK = {"lvl2": 2528, "lvl3": 4000, "lvl5": 4864, "ml_dsa_44": 2560, "ml_dsa_65": 4032, "ml_dsa_87": 4896}
RULE = ("seeded key generation for the KAT seeds (OpenSSL 3.5.5 ML-DSA vectors, the repo's Dilithium vectors), all-00, all-FF and "
        "random seeds x 6 sets, through sign::<set>::keypair and <set>::Keypair::generate; unseeded generation with the RNG "
        "tap serving scripted bytes. distinct_nontrivial = distinct (set, seed) pairs with an ok answer. Twin requests: key generation into buffers 1/33/64 bytes longer must write the same keys; output buffers pre-filled with a byte that changes per call. Corpus kat/eta_tight_seeds.json: key seeds with tight secret-sampler streams and with consecutive out-of-range candidates in ExpandA.")
EXPLANATION = ('Props/C04.lean: keypair_is_spec_function - the keys keypair returns satisfy KeygenSpec.IsKeyGen (FIPS 204 Alg. 6 / Dilithium 3.1 Gen as a relation over specification-level objects) and that relation determines pk and sk; keygen_relation (t1 2^13 + t0 = A s1 + s2, ranges, no overflow). The tie: model = code byte for byte on KAT, edge, boundary-searched and random seeds; model = OpenSSL 3.5.5 / NIST vectors.')
ASSUMPTIONS = ["kat/mldsa_keygen_openssl.json was produced once by OpenSSL 3.5.5 (node 22) — provenance in the file",
               "kat/dilithium_repo_kats.json are the NIST round-3.1 vectors embedded in the repo's tests"]

TWINS = []
_K = None
def kats():
    global _K
    if _K is None:
        _K = {}
        d = json.load(open(os.path.join(core.VERIF, "kat", "mldsa_keygen_openssl.json")))
        for v in d["vectors"]:
            _K[(v["set"], v["seed"])] = (v["pk"], v["sk"])
        d = json.load(open(os.path.join(core.VERIF, "kat", "dilithium_repo_kats.json")))
        for v in d["vectors"]:
            if v["kind"] == "keypair":
                _K[(v["set"], v["seed"])] = (v["pk"], v["sk"])
    return _K


def requests(tier, rng):
    L = []
    del TWINS[:]
    n_rand = 4 if tier == "quick" else 60
    for (s, seed) in kats():
        L.append("sign::%s::keypair %s -" % (s, seed))
    # boundary-seeking: seeds for which one secret polynomial needs a third SHAKE-256 block (eta = 4 sets, ~1 seed in 10^4)
    from .. import pyspec as S
    for s in ("lvl3", "ml_dsa_65"):
        xi = S.find_keygen_seed_eta_refill(S.P(s), 2, rng)
        if xi is not None:
            L.append("sign::%s::keypair %s -" % (s, xi.hex()))
    # boundary-seeking: seeds for which a coefficient of t = A*s1 + s2 is within a few units of 0 or q (where the order of
    # caddq / + s2 / Power2Round matters; about 1 seed in 2000), found by an independent numpy/hashlib computation
    for s in SETS:
        for xi in S.find_keygen_seeds_t_band(s, rng, budget=5000 if tier == "quick" else 40000, band=6, want=2 if tier == "quick" else 12):
            L.append("sign::%s::keypair %s -" % (s, xi.hex()))
            _band.add(xi.hex())
    # corpus of key seeds for which a secret polynomial is sampled from a "tight" stream (kat/eta_tight_seeds.json)
    corpus = json.load(open(os.path.join(core.VERIF, "kat", "eta_tight_seeds.json")))
    tight = corpus["keygen"]
    for s in SETS:
        for xi in tight.get(s, [])[: (3 if tier == "quick" else 8)]:
            L.append("sign::%s::keypair %s -" % (s, xi))
            _band.add(xi)       # the public key of corpus seeds is also computed independently (numpy / hashlib)
        # ... and seeds for which an entry of A meets two or more out-of-range candidates in a row
        for xi in corpus.get("keygen_rej_runs", {}).get(s, [])[: (3 if tier == "quick" else 6)]:
            L.append("sign::%s::keypair %s -" % (s, xi))
            _band.add(xi)
    for s in SETS:
        seeds = ["00" * 32, "ff" * 32] + [bytes(rng.randrange(256) for _ in range(32)).hex() for _ in range(n_rand)]
        for seed in seeds:
            L.append("sign::%s::keypair %s -" % (s, seed))
        # API wrapper, seeded and unseeded (scripted RNG: the tape is the seed)
        L.append("%s::Keypair::generate %s -" % (API[s], seeds[-1]))
        tape = bytes(rng.randrange(256) for _ in range(40)).hex()
        L.append("sign::%s::keypair none %s" % (s, tape))
        L.append("%s::Keypair::generate none %s" % (API[s], tape))
        L.append("sign::%s::keypair %s -" % (s, tape[:64]))          # same seed, seeded: must give the same keys
        # caller's buffers longer than the standard sizes (the raw entry points take slices): the leading standard-size
        # parts must be the same keys
        for extra in (1, 33, 64):
            L.append("@impl sign::%s::keypair_cap %d %s -" % (s, extra, seeds[-1]))
            TWINS.append(("@impl sign::%s::keypair_cap %d %s -" % (s, extra, seeds[-1]), "sign::%s::keypair %s -" % (s, seeds[-1]),
                          "key generation into pk / sk buffers %d bytes longer than the standard sizes must write the same keys" % extra))
        # wrong seed lengths are refused (panic), not padded or truncated
        for bad in ("00" * 31, "00" * 33, "-"):
            L.append("sign::%s::keypair %s -" % (s, bad))
    return L


_band = set()
_oracle = {}


def expected(line):
    t = line.split()
    p = t[0].split("::")
    if p[0] == "sign" and p[2] == "keypair" and (p[1], t[1]) in kats():
        pk, sk = kats()[(p[1], t[1])]
        return "ok %s %s" % (pk, sk)
    return None


def violated(line, checked, release):
    e = expected(line)
    t = line.split()
    p = t[0].split("::")
    for prof, ans in (("checked", checked), ("wrapping", release)):
        if e is not None and ans != e:
            return "%s build: %s with seed %s is not the specification's key pair (known answer: pk ..%s, got ..%s)" % (
                prof, t[0], t[1], e.split()[1][-16:], ans.split()[1][-16:] if ans.startswith("ok ") else ans)
        if p[0] == "sign" and p[2] == "keypair" and t[2] == "-" and (t[1] in _band or (not _band and len(_oracle) < 8)):
            # boundary seed: the public key is also computed independently (numpy/hashlib transcription of ExpandA/ExpandS/NTT/Power2Round)
            from .. import pyspec as S
            key = (p[1], t[1])
            if key not in _oracle:
                _oracle[key] = S.keygen_pk_oracle(p[1], bytes.fromhex(t[1]))
            want = _oracle[key]
            if want is not None and not (ans.startswith("ok ") and ans.split()[1] == want.hex()):
                return "%s build: %s with seed %s (a boundary-seeking seed: a coefficient of t next to 0 or q, a tight sampler stream, consecutive rejections in ExpandA) does not return the specification's public key" % (prof, t[0], t[1])
        if ans.startswith("ok ") and p[0] == "sign" and p[2] == "keypair":
            pk, sk = ans.split()[1:]
            if len(pk) // 2 != PK[p[1]] or len(sk) // 2 != SK[p[1]]:
                return "%s build: wrong key sizes" % prof
            if pk[:64] != sk[:64]:
                return "%s build: public and secret key carry different rho" % prof
    return None


def finding_key(line):
    t = line.split()
    return "%s-seed-domain-separation" % t[0].split("::")[1] if t[0].startswith("sign::ml_dsa") else t[0]


def nontrivial(line, model_ans):
    return model_ans.startswith("ok ")


def search(tier, rng):
    return ["sign::%s::keypair %s -" % (s, seed) for (s, seed) in list(kats())[:12]]
