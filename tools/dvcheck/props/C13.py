"""C13 — NTT-based multiplication equals negacyclic polynomial multiplication mod q."""
from .. import pyspec as S
ID = "C13"
Q = 8380417
MONT = pow(2, 32, Q)
RULE = ("random polynomials with |coeff| <= 4, < q and the 256 single-spike inputs +-(q-1) (forward), inputs < q (inverse), "
        "operands < 9q (pointwise); follow-up stages chain ntt -> pointwise -> invntt_tomont on the implementation's own "
        "outputs. Each answer is checked against plain evaluation at the 256 roots 1753^(2*brv8(i)+1), the bound 9q / q, and "
        "the schoolbook negacyclic product. distinct_nontrivial = distinct requests with a non-zero input. Slice-level transforms on windows at word offsets 1..7 of a larger buffer.")
EXPLANATION = ("Props/C13.lean: kernel-checked facts about the ZETAS table regenerated from ntt.rs (tree relations zeta_{2k}^2 = zeta_k, "
               "zeta_{2k+1}^2 = -zeta_k, zeta_1^2 = -1 in Montgomery form, F = 2^64/256, table bound) and the NTT evaluation theorem; "
               "the tie checks the code against the mathematical definition directly.")
ASSUMPTIONS = []
_pairs = []


def fmt(p):
    return ",".join(str(x) for x in p)


def requests(tier, rng):
    global _pairs
    _pairs = []
    L = []
    n = 6 if tier == "quick" else 60
    polys = []
    for _ in range(n):
        polys.append([rng.randrange(-4, 5) for _ in range(256)])
        polys.append([rng.randrange(-Q + 1, Q) for _ in range(256)])
    polys.append([Q - 1] * 256); polys.append([-(Q - 1)] * 256)
    polys.append([(Q - 1) if i % 2 else -(Q - 1) for i in range(256)])
    for pos in (range(256) if tier == "thorough" else list(range(0, 256, 17)) + [255]):
        for v in (Q - 1, -(Q - 1)):
            p = [0] * 256; p[pos] = v
            polys.append(p)
    for p in polys:
        L.append("ntt::ntt " + fmt(p))
        L.append("poly::ntt " + fmt(p))
    for _ in range(n):
        p = [rng.randrange(-Q + 1, Q) for _ in range(256)]
        L.append("ntt::invntt_tomont " + fmt(p))
        L.append("poly::invntt_tomont " + fmt(p))
    L.append("poly::invntt_tomont " + fmt([Q - 1] * 256))
    L.append("poly::invntt_tomont " + fmt([-(Q - 1)] * 256))
    for _ in range(n):
        a = [rng.randrange(-9 * Q + 1, 9 * Q) for _ in range(256)]; b = [rng.randrange(-9 * Q + 1, 9 * Q) for _ in range(256)]
        L.append("poly::pointwise_montgomery %s %s" % (fmt(a), fmt(b)))
    L.append("poly::pointwise_montgomery %s %s" % (fmt([9 * Q - 1] * 256), fmt([-(9 * Q - 1)] * 256)))
    # degenerate operands (the output buffer is pre-filled with junk by the harness): the zero polynomial on either side,
    # a single non-zero coefficient, constants, all-equal operands -- where a "shortcut" for special inputs would live
    zero = [0] * 256
    rnd = [rng.randrange(-Q + 1, Q) for _ in range(256)]
    one = [1] + [0] * 255
    last = [0] * 255 + [rng.randrange(1, Q)]
    for a, b in ((zero, rnd), (rnd, zero), (zero, zero), (one, rnd), (rnd, one), (last, rnd), (rnd, last), (rnd, rnd), ([1] * 256, rnd), ([-1] * 256, rnd)):
        L.append("poly::pointwise_montgomery %s %s" % (fmt(a), fmt(b)))
    for p0 in (zero, one, last, [1] * 256, [Q - 1] * 256):
        L.append("poly::ntt " + fmt(p0))
        L.append("poly::invntt_tomont " + fmt(p0))
    # the slice-level transforms on windows at every word offset 1..7 of a larger buffer (differently aligned memory)
    for off in range(1, 8):
        p = [rng.randrange(-Q + 1, Q) for _ in range(256)]
        L.append("@impl ntt::ntt_off %d %s" % (off, fmt(p)))
        L.append("@impl ntt::invntt_tomont_off %d %s" % (off, fmt(p)))
    # power-of-two grid: every pair (+-2^i + d, +-2^j + e), d, e in {-1, 0, 1}, inside the 9q operand bound --
    # where word-size shortcuts and sign handling change behaviour
    vals = sorted({sg * (2**i) + d for i in range(0, 27) for d in (-1, 0, 1) for sg in (1, -1) if abs(sg * (2**i) + d) < 9 * Q} | {9 * Q - 1, -(9 * Q - 1), Q, -Q, Q - 1, 1 - Q})
    pairs = [(x, y) for x in vals for y in vals]
    if tier == "quick":
        pairs = [pq for k, pq in enumerate(pairs) if (k % 4 == (rng.randrange(4)))] + [(sg1 * 2**i, sg2 * 2**j) for i in range(27) for j in range(27) for sg1 in (1, -1) for sg2 in (1, -1) if 2**i < 9 * Q and 2**j < 9 * Q]
    for k in range(0, len(pairs), 256):
        chunk = pairs[k:k + 256]
        chunk += [(0, 0)] * (256 - len(chunk))
        L.append("poly::pointwise_montgomery %s %s" % (fmt([x for x, _ in chunk]), fmt([y for _, y in chunk])))
    # products: pairs (a, b) whose transforms are chained in the follow-up stages
    for _ in range(3 if tier == "quick" else 20):
        a = [rng.randrange(-Q + 1, Q) for _ in range(256)]; b = [rng.randrange(-Q + 1, Q) for _ in range(256)]
        _pairs.append((a, b))
        L.append("poly::ntt " + fmt(a)); L.append("poly::ntt " + fmt(b))
    a = [Q - 1] * 256; b = [-(Q - 1)] * 256
    _pairs.append((a, b)); L.append("poly::ntt " + fmt(a)); L.append("poly::ntt " + fmt(b))
    return L


_chain = {}


def followup(stage, lines, model, checked, release, tier, rng):
    idx = {l: i for i, l in enumerate(lines)}
    out = []
    if stage == 1:
        for (a, b) in _pairs:
            ia = idx["poly::ntt " + fmt(a)]; ib = idx["poly::ntt " + fmt(b)]
            if checked[ia].startswith("ok ") and checked[ib].startswith("ok "):
                ln = "poly::pointwise_montgomery %s %s" % (checked[ia][3:], checked[ib][3:])
                _chain[ln] = (a, b); out.append(ln)
        # inverse of forward: invntt_tomont(reduce-free) needs |x| < q, so go through pointwise with the constant 2^32 mod q ... not needed:
        return out
    if stage == 2:
        for ln, (a, b) in list(_chain.items()):
            if ln in idx and checked[idx[ln]].startswith("ok "):
                l2 = "poly::invntt_tomont " + checked[idx[ln]][3:]
                _chain[l2] = ("prod", a, b); out.append(l2)
        return out
    return []


def _v(ans):
    return [int(x) for x in ans[3:].split(",")] if ans.startswith("ok ") else None


def violated(line, checked, release):
    t = line.replace("@impl ", "").split()
    fn = t[0].split("::")[1]
    if fn in ("ntt_off", "invntt_tomont_off"):
        # the transform applied to a 256-word window that starts `off` words into a larger buffer: same function
        fn = fn[:-4]; t = [t[0]] + t[2:]
    for prof, ans in (("checked", checked), ("wrapping", release)):
        r = _v(ans)
        if fn == "ntt":
            a = [int(x) for x in t[1].split(",")]
            if max(abs(x) for x in a) >= Q:
                continue
            if r is None:
                return "%s build: ntt overflows on coefficients inside (-q, q)" % prof
            if [x % Q for x in r] != S.ntt_eval(a):
                return "%s build: ntt output is not the evaluation at the roots 1753^(2 brv8(i)+1)" % prof
            if max(abs(x) for x in r) >= 9 * Q:
                return "%s build: ntt output exceeds 9q in magnitude" % prof
        if fn == "invntt_tomont":
            a = [int(x) for x in t[1].split(",")]
            if max(abs(x) for x in a) >= Q:
                continue
            if r is None:
                return "%s build: invntt_tomont overflows on coefficients inside (-q, q)" % prof
            if max(abs(x) for x in r) >= Q:
                return "%s build: invntt_tomont output not below q in magnitude" % prof
            # ntt(r) must be 2^32 * a
            if S.ntt_eval(r) != [(x * MONT) % Q for x in a]:
                return "%s build: invntt_tomont does not invert the forward transform up to the factor 2^32" % prof
            if line in _chain and _chain[line][0] == "prod":
                _, pa, pb = _chain[line]
                if [x % Q for x in r] != S.negacyclic_mul(pa, pb):
                    return "%s build: transform, pointwise product, inverse transform is not the negacyclic product" % prof
        if fn == "pointwise_montgomery":
            a = [int(x) for x in t[1].split(",")]; b = [int(x) for x in t[2].split(",")]
            if max(abs(x) for x in a) >= 9 * Q or max(abs(x) for x in b) >= 9 * Q:
                continue
            if r is None:
                return "%s build: pointwise_montgomery panics" % prof
            if any((z * 2**32 - x * y) % Q != 0 or abs(z) >= Q for x, y, z in zip(a, b, r)):
                return "%s build: pointwise_montgomery is not a*b*2^-32 mod q with |r| < q" % prof
    return None


def nontrivial(line, model_ans):
    return (model_ans.startswith("ok") or model_ans == "@impl") and any(c not in "0,- " for c in line.split(" ", 1)[1])
