"""C16 — bit-packing is the specification's encoding and is lossless."""
from .. import pyspec as S
ID = "C16"
SPEC_ORACLE = ['bits']   # specification definitions used by Props/C16.lean are compared with hashlib / pyspec on every run
SETS = ["lvl2", "lvl3", "lvl5", "ml_dsa_44", "ml_dsa_65", "ml_dsa_87"]
RULE = ("per codec and per textual copy (6 poly modules, 6 packing modules): extreme vectors (all-min, all-max, alternating, one "
        "extreme at each group offset), random in-range vectors; decoders on random bytes and all-00/all-FF; hint vectors of weight "
        "0, omega in one row (first/last), spread, omega exactly, omega+1 (must fault), plus malformed hint sections for unpack_sig. "
        "Every pack answer is compared with an independent Python BitPack/SimpleBitPack/HintBitPack, every unpack answer with "
        "the corresponding decoder. distinct_nontrivial = distinct requests whose vector contains an extreme value or whose "
        "byte string is not all-zero.")
EXPLANATION = ("Props/C16.lean: group-level round trips and lengths for the coefficient codecs, lifted to 256 coefficients; "
               "hint section round trip. The tie compares model, code and an independent Python encoder on each copy.")
ASSUMPTIONS = ["output buffers are the exact-size buffers the crate's callers allocate; longer/shorter output slices are not exercised"]


def fmt(p):
    return ",".join(str(x) for x in p)


def hx(b):
    return bytes(b).hex() if len(b) else "-"


def vecs(rng, lo, hi, n_rand, group):
    out = [[lo] * 256, [hi] * 256, [lo if i % 2 else hi for i in range(256)], [hi if i % 2 else lo for i in range(256)], [0 if lo <= 0 <= hi else lo] * 256]
    for off in range(group):
        for v in (lo, hi):
            p = [rng.randrange(lo, hi + 1) for _ in range(256)]
            for i in range(off, 256, group):
                p[i] = v
            out.append(p)
    for _ in range(n_rand):
        out.append([rng.randrange(lo, hi + 1) for _ in range(256)])
    return out


def rbytes(rng, n):
    return [bytes(n), bytes([255]) * n] + [bytes(rng.randrange(256) for _ in range(n)) for _ in range(3)]


def hint_vectors(rng, p):
    k, om = p.k, p.omega
    def mk(rows):
        h = [[0] * 256 for _ in range(k)]
        for i, idxs in enumerate(rows):
            for j in idxs:
                h[i][j] = 1
        return h
    out = [mk([[]] * k)]
    out.append(mk([list(range(om))] + [[]] * (k - 1)))                       # omega in the first row
    out.append(mk([[]] * (k - 1) + [list(range(256 - om, 256))]))            # omega in the last row
    per = om // k
    out.append(mk([sorted(rng.sample(range(256), per)) for _ in range(k)]))  # spread
    rows = [sorted(rng.sample(range(256), per)) for _ in range(k)]
    rows[0] = sorted(rng.sample(range(256), per + om - per * k))             # exactly omega
    out.append(mk(rows))
    out.append(mk([[0, 255]] + [[]] * (k - 2) + [[7]]))
    for _ in range(3):
        w = rng.randrange(0, om + 1)
        cells = rng.sample(range(256 * k), w)
        rows = [[] for _ in range(k)]
        for c in cells:
            rows[c // 256].append(c % 256)
        out.append(mk([sorted(r) for r in rows]))
    return out


def requests(tier, rng):
    nr = 3 if tier == "quick" else 30
    L = []
    for p in vecs(rng, 0, 1023, nr, 4):
        L.append("poly::t1_pack " + fmt(p))
    for p in vecs(rng, -4095, 4096, nr, 8):
        L.append("poly::t0_pack " + fmt(p))
    for b in rbytes(rng, 320):
        L.append("poly::t1_unpack " + hx(b))
    for b in rbytes(rng, 416):
        L.append("poly::t0_unpack " + hx(b))
    L.append("poly::t1_unpack " + hx(bytes(319)))      # too short: refused
    L.append("poly::t0_unpack " + hx(bytes(415)))
    for s in SETS:
        p = S.P(s)
        for v in vecs(rng, -p.eta, p.eta, nr, 8 if p.eta == 2 else 2):
            L.append("poly::%s::eta_pack %s" % (s, fmt(v)))
        for v in vecs(rng, -(p.gamma1 - 1), p.gamma1, nr, 4 if p.zbits == 18 else 2):
            L.append("poly::%s::z_pack %s" % (s, fmt(v)))
        for v in vecs(rng, 0, (1 << p.w1bits) - 1 if p.w1bits == 4 else 43, nr, 4 if p.w1bits == 6 else 2):
            L.append("poly::%s::w1_pack %s" % (s, fmt(v)))
        for b in rbytes(rng, p.polyeta):
            L.append("poly::%s::eta_unpack %s" % (s, hx(b)))
        for b in rbytes(rng, p.polyz):
            L.append("poly::%s::z_unpack %s" % (s, hx(b)))
        L.append("poly::%s::z_unpack %s" % (s, hx(bytes(p.polyz - 1))))
        # containers
        lv = S.LVL[s]
        for _ in range(2 if tier == "quick" else 10):
            rho = bytes(rng.randrange(256) for _ in range(32)); key = bytes(rng.randrange(256) for _ in range(32))
            tr = bytes(rng.randrange(256) for _ in range(p.tr))
            t1 = [[rng.randrange(0, 1024) for _ in range(256)] for _ in range(p.k)]
            t0 = [[rng.randrange(-4095, 4097) for _ in range(256)] for _ in range(p.k)]
            s1 = [[rng.randrange(-p.eta, p.eta + 1) for _ in range(256)] for _ in range(p.l)]
            s2 = [[rng.randrange(-p.eta, p.eta + 1) for _ in range(256)] for _ in range(p.k)]
            V = lambda v: ";".join(fmt(x) for x in v)
            L.append("packing::%s::pack_pk %s %s" % (s, hx(rho), V(t1)))
            L.append("packing::%s::pack_sk %s %s %s %s %s %s" % (s, hx(rho), hx(tr), hx(key), V(t0), V(s1), V(s2)))
            L.append("packing::%s::unpack_pk %s" % (s, hx(bytes(rng.randrange(256) for _ in range(p.pk)))))
            L.append("packing::%s::unpack_sk %s" % (s, hx(bytes(rng.randrange(256) for _ in range(p.sk)))))
        for h in hint_vectors(rng, p):
            c = bytes(rng.randrange(256) for _ in range(p.ctilde))
            z = [[rng.randrange(-(p.gamma1 - 1), p.gamma1 + 1) for _ in range(256)] for _ in range(p.l)]
            V = lambda v: ";".join(fmt(x) for x in v)
            L.append("packing::%s::pack_sig %s %s %s" % (s, hx(c), V(z), V(h)))
        # omega + K + 1 hints cannot be written into the hint area: refused (panic), never truncated silently
        h = [[0] * 256 for _ in range(p.k)]
        for j in range(p.omega + p.k + 1):
            h[j // 200][j % 200] = 1
        z = [[0] * 256 for _ in range(p.l)]
        L.append("packing::%s::pack_sig %s %s %s" % (s, hx(bytes(p.ctilde)), ";".join(fmt(x) for x in z), ";".join(fmt(x) for x in h)))
        # decoder on well-formed and malformed hint sections
        base = bytes(rng.randrange(256) for _ in range(p.ctilde + p.l * p.polyz))
        def hs(idx, cnt):
            y = list(idx) + [0] * (p.omega - len(idx)) + list(cnt)
            return base + bytes(y)
        k, om = p.k, p.omega
        good = hs([1, 5, 9], [3] + [3] * (k - 1))
        cases = [good,
                 hs([5, 1, 9], [3] + [3] * (k - 1)),          # not increasing
                 hs([1, 1, 9], [3] + [3] * (k - 1)),          # repeated index
                 hs([0, 0, 9], [3] + [3] * (k - 1)),          # repeated index 0 (0 is a legal position, not "no previous index")
                 hs([0, 0], [2] + [2] * (k - 1)), hs([0, 5, 5], [3] + [3] * (k - 1)), hs([255, 255], [2] + [2] * (k - 1)),
                 hs([3, 0, 0], [1, 3] + [3] * (k - 2)),       # repeated 0 in the second row
                 hs([7] + [0, 0], [1] * (k - 1) + [3]),       # repeated 0 in the last row
                 hs([0], [1] + [1] * (k - 1)), hs([0, 1], [2] + [2] * (k - 1)), hs([4, 0], [1, 2] + [2] * (k - 2)),   # legal uses of position 0
                 hs([1, 5, 9], [3, 2] + [3] * (k - 2)),       # counter decreasing
                 hs([1, 5, 9], [3] * (k - 1) + [om + 1]),     # counter above omega
                 hs([1, 5, 9, 7], [3] + [3] * (k - 1)),       # non-zero padding
                 hs([9, 5], [1, 2] + [2] * (k - 2)),          # decreasing across polynomials is fine
                 hs(list(range(om)), [om] * k),               # exactly omega in row 0
                 hs([0] * om, [0] * k), hs([255] * 3, [1, 2, 3] + [3] * (k - 3)),
                 hs([1, 5, 9], [255] * k), hs([], [0] * (k - 1) + [1]),
                 # strictly increasing index area AND increasing counters above omega: a decoder with a loose counter bound
                 # walks past the index area (and past the end of the signature)
                 hs(list(range(om)), [om + 2 + i for i in range(k)]), hs(list(range(om)), [om + k + 5 + i for i in range(k)]),
                 hs(list(range(om)), [om + 1] * k), hs(list(range(1, om + 1)), [om, om - 1] + [om] * (k - 2)),
                 hs(list(range(om)), [om - 3, om - 5] + [om] * (k - 2)), hs(list(range(om)), [5, 3, 9] + [om] * (k - 3))]
        for c in cases:
            L.append("packing::%s::unpack_sig %s" % (s, hx(c)))
        for _ in range(3):
            L.append("packing::%s::unpack_sig %s" % (s, hx(bytes(rng.randrange(256) for _ in range(p.sig)))))
        L.append("packing::%s::unpack_sig %s" % (s, hx(bytes(p.sig - 1))))
    return L


def _ints(s):
    return [int(x) for x in s.split(",")]


def _vec(s):
    return [_ints(x) for x in s.split(";")]


def spec(line):
    """expected answer from the independent Python encoder; None where the standard leaves the behaviour open"""
    t = line.split()
    parts = t[0].split("::")
    try:
        if parts[0] == "poly" and len(parts) == 2:
            if parts[1] == "t1_pack":
                return "ok " + hx(S.simple_bit_pack(_ints(t[1]), 10))
            if parts[1] == "t0_pack":
                return "ok " + hx(S.bit_pack(_ints(t[1]), 4096, 13))
            if parts[1] == "t1_unpack":
                b = bytes.fromhex(t[1])
                return "ok " + fmt(S.bits_unpack(b[:320], 10)) if len(b) >= 320 else "fault"
            if parts[1] == "t0_unpack":
                b = bytes.fromhex(t[1])
                return "ok " + fmt(S.bit_unpack(b[:416], 4096, 13)) if len(b) >= 416 else "fault"
        if parts[0] == "poly" and len(parts) == 3:
            p = S.P(parts[1])
            f = parts[2]
            if f == "eta_pack":
                return "ok " + hx(S.bit_pack(_ints(t[1]), p.eta, p.etabits))
            if f == "z_pack":
                return "ok " + hx(S.bit_pack(_ints(t[1]), p.gamma1, p.zbits))
            if f == "w1_pack":
                return "ok " + hx(S.simple_bit_pack(_ints(t[1]), p.w1bits))
            if f == "eta_unpack":
                b = bytes.fromhex(t[1])
                return "ok " + fmt(S.bit_unpack(b[:p.polyeta], p.eta, p.etabits)) if len(b) >= p.polyeta else "fault"
            if f == "z_unpack":
                b = bytes.fromhex(t[1])
                return "ok " + fmt(S.bit_unpack(b[:p.polyz], p.gamma1, p.zbits)) if len(b) >= p.polyz else "fault"
        if parts[0] == "packing":
            p = S.P(parts[1])
            f = parts[2]
            B = lambda s: bytes.fromhex(s) if s != "-" else b""
            if f == "pack_pk":
                return "ok " + hx(B(t[1])[:32] + b"".join(S.simple_bit_pack(x, 10) for x in _vec(t[2])))
            if f == "pack_sk":
                rho, tr, key = B(t[1]), B(t[2]), B(t[3])
                t0, s1, s2 = _vec(t[4]), _vec(t[5]), _vec(t[6])
                return "ok " + hx(rho + key + tr + b"".join(S.bit_pack(x, p.eta, p.etabits) for x in s1) +
                                  b"".join(S.bit_pack(x, p.eta, p.etabits) for x in s2) + b"".join(S.bit_pack(x, 4096, 13) for x in t0))
            if f == "unpack_pk":
                b = B(t[1])
                if len(b) < p.pk:
                    return "fault"
                return "ok %s %s" % (hx(b[:32]), ";".join(fmt(S.bits_unpack(b[32 + 320 * i:32 + 320 * (i + 1)], 10)) for i in range(p.k)))
            if f == "unpack_sk":
                b = B(t[1])
                if len(b) < p.sk:
                    return "fault"
                o = 64 + p.tr
                s1 = [S.bit_unpack(b[o + p.polyeta * i:o + p.polyeta * (i + 1)], p.eta, p.etabits) for i in range(p.l)]
                o += p.polyeta * p.l
                s2 = [S.bit_unpack(b[o + p.polyeta * i:o + p.polyeta * (i + 1)], p.eta, p.etabits) for i in range(p.k)]
                o += p.polyeta * p.k
                t0 = [S.bit_unpack(b[o + 416 * i:o + 416 * (i + 1)], 4096, 13) for i in range(p.k)]
                V = lambda v: ";".join(fmt(x) for x in v)
                return "ok %s %s %s %s %s %s" % (hx(b[:32]), hx(b[64:64 + p.tr]), hx(b[32:64]), V(t0), V(s1), V(s2))
            if f == "pack_sig":
                c, z, h = B(t[1]), _vec(t[2]), _vec(t[3])
                w = sum(1 for r in h for x in r if x)
                if w > p.omega:
                    return None if w < p.omega + p.k else "fault"
                return "ok " + hx(c[:p.ctilde] + b"".join(S.bit_pack(x, p.gamma1, p.zbits) for x in z) + S.hint_bit_pack(p, h))
            if f == "unpack_sig":
                b = B(t[1])
                if len(b) < p.sig:
                    return "fault"
                h = S.hint_bit_unpack(p, b[p.ctilde + p.l * p.polyz:])
                if h is None:
                    return "ok false"
                z = [S.bit_unpack(b[p.ctilde + p.polyz * i:p.ctilde + p.polyz * (i + 1)], p.gamma1, p.zbits) for i in range(p.l)]
                V = lambda v: ";".join(fmt(x) for x in v)
                return "ok true %s %s %s" % (hx(b[:p.ctilde]), V(z), V(h))
    except AssertionError:
        return None
    return None


def violated(line, checked, release):
    e = spec(line)
    if e is None:
        return None
    for prof, ans in (("checked", checked), ("wrapping", release)):
        if ans != e and not (e == "fault" and prof == "wrapping"):
            return "%s build: %s is not the specification's encoding/decoding: got %s.., expected %s.." % (prof, line.split()[0], ans[:70], e[:70])
    return None


def expected(line):
    return spec(line)


def nontrivial(line, model_ans):
    t = line.split()
    return model_ans.startswith("ok") and not all(c in "0,;-" for c in "".join(t[1:]))


def search(tier, rng):
    return []
