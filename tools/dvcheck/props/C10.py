"""C10 — operations are pure: results independent of call history and thread schedule."""
import os, re
from .. import scheme as K
from .. import pyspec as S
from .. import core
ID = "C10"
RULE = ("a pool of deterministic requests (seeded keygen, deterministic sign, verify of valid and invalid signatures) over all six "
        "sets and two keys per set is (a) answered in isolation by model and code, (b) executed inside the harness concurrently on "
        "1, 2, 4, 8 and 16 threads, each thread walking the pool in a different order for several rounds, every answer compared with "
        "the isolated one, (c) re-run sequentially in shuffled order after randomized operations. A source scan requires that the "
        "crate has no static mut / thread_local / interior-mutability construct outside tests and the verification hook (else: correspondence broken). "
        "distinct_nontrivial = distinct pool requests; evaluations adds the calls made inside the interleaved runs. Refused calls (short output buffer, short public key) inside ordered histories; several verifications on one PublicKey object.")
EXPLANATION = ("Props/C10.lean: history independence of drawing-free operations in the sequential machine. The OS scheduler is not "
               "modelled; a race that never manifests in the explored schedules is outside what this technique can exhibit (partial).")
ASSUMPTIONS = ["thread schedules are sampled (harness threads), not enumerated"]
_st = {"pool": [], "scan": None, "iso": set()}


def source_scan():
    bad = []
    src = os.path.join(core.REPO, "src")
    for root, _, files in os.walk(src):
        for f in files:
            if not f.endswith(".rs") or f == "verif_hooks.rs":
                continue
            txt = open(os.path.join(root, f)).read()
            txt = txt.split("#[cfg(test)]")[0]
            txt = re.sub(r"//[^\n]*", "", txt)
            # only constructs that can hold state across calls: immutable statics, consts and `unsafe` blocks are not state
            for pat in (r"\bstatic\s+mut\b", r"thread_local!", r"\b(RefCell|Cell|UnsafeCell|Mutex|RwLock|Atomic[A-Za-z0-9]+|OnceCell|OnceLock|LazyLock|LazyCell|lazy_static)\b"):
                m = re.search(pat, txt)
                if m:
                    bad.append("%s: %s" % (os.path.relpath(os.path.join(root, f), core.REPO), m.group(0)))
    return bad


def model_assumption_broken():
    """The model threads no state but the RNG tape through the operations (that is what `history_independent` is about).
    A construct in the crate that can carry state from one call to the next means the model no longer mirrors the code's
    state space: reported as a broken correspondence (no failing input) unless the behavioural tie finds one."""
    if _st["scan"]:
        return ["the crate now contains a construct that can keep state across calls, which the state-free model does not mirror: %s"
                % "; ".join(_st["scan"][:4])]
    return []


def replay_with(lines, i):
    """a failing ordered history is replayed together with its calls run on their own"""
    for (rl, i1, i2) in _st.get("reuse", []):
        if lines[i] == rl:
            return [k for k, l in enumerate(lines) if l in (i1, i2)]
    if lines[i].startswith("@impl sequence "):
        reqs = {x.strip() for x in lines[i][len("@impl sequence "):].split(";;")}
        return [k for k, l in enumerate(lines) if l.strip() in reqs and not l.startswith("@")]
    return []


def weight(line):
    if line.startswith("@impl sequence"):
        return line.count(";;") + 1
    if line.startswith("@impl interleave"):
        t = line.split()
        return int(t[2]) * int(t[3]) * (line.count(";;") + 1)
    return 1


def requests(tier, rng):
    _st["scan"] = source_scan()
    L = []
    for s in K.SETS:
        for _ in range(2):
            L.append(K.keygen(s, bytes(rng.randrange(256) for _ in range(32))))
    return L


def followup(stage, lines, model, checked, release, tier, rng):
    R = lambda n: bytes(rng.randrange(256) for _ in range(n))
    L = []
    if stage == 1:
        for ln, ans in zip(lines, checked):
            if "::keypair" in ln and ans.startswith("ok "):
                s = ln.split("::")[1]
                pk, sk = K.keys_of(ans)
                _st["pool"].append(ln)
                for _ in range(2):          # two signatures per key: the rejected calls of a history are mangled versions of the other one
                    msg = R(20)
                    r = K.sign_raw(s, msg, sk, 0)
                    _st["pool"].append(r)
                    L.append(r)
                    _st.setdefault("sigreq", []).append((s, msg, pk, r))
        return L
    if stage == 2:
        idx = {l: i for i, l in enumerate(lines)}
        for (s, msg, pk, r) in _st["sigreq"]:
            sig = K.sig_of(checked[idx[r]])
            if sig:
                v1 = K.verify_raw(s, sig, msg, pk); v2 = K.verify_raw(s, sig, msg + b"x", pk)
                _st["pool"] += [v1, v2]; L += [v1, v2]
        return L
    if stage == 3:
        pool = list(_st["pool"])
        rounds = 1 if tier == "quick" else 4
        for th in (1, 2, 4, 8, 16):
            L.append("@impl interleave %d %d %s" % (th, rounds, " ;; ".join(pool)))
        # ordered histories on one thread of one process: rejected calls (early and late rejects, which leave partially
        # filled temporaries behind), near-duplicate public keys (same rho, other t1), other keys, then the valid call again
        from .. import pyspec
        seqs = []
        for (s, msg, pk, r) in _st["sigreq"]:
            sig = K.sig_of(checked[lines.index(r)]) if r in lines else None
            if not sig:
                continue
            P = pyspec.P(s)
            other = [(m2, r2) for (s2, m2, pk2_, r2) in _st["sigreq"] if pk2_ == pk and r2 != r]
            osig = K.sig_of(checked[lines.index(other[0][1])]) if other and other[0][1] in lines else None
            omsg = other[0][0] if osig else msg
            b = bytearray.fromhex(osig or sig)
            bad_hint = bytearray(b); bad_hint[-1] = 255
            bad_z = bytearray(b); bad_z[P.ctilde:P.ctilde + 3] = b"\0\0\0"
            pk2 = bytearray.fromhex(pk); pk2[-1] ^= 1
            good = K.verify_raw(s, sig, msg, pk)
            va = [K.verify_raw(s, bad_hint.hex(), omsg, pk), good, K.verify_raw(s, bad_z.hex(), omsg, pk), good,
                  K.verify_raw(s, sig, msg + b"x", pk), good]
            vb = [K.verify_raw(s, sig, msg, pk2.hex()), good, K.verify_raw(s, sig, msg, pk2.hex())]
            vc = [good, K.verify_raw(s, sig, msg, pk2.hex()), good]
            seqs += [va, vb, vc]
        # several calls on ONE key object of the ML-DSA containers (contexts of different shapes, then none): each answer must be
        # what the call returns on a freshly built object
        for (s, msg, pk, r) in _st["sigreq"]:
            if not S.P(s).mldsa or (s, "reuse") in _st["iso"]:
                continue
            _st["iso"].add((s, "reuse"))
            sk = r.split()[2]
            for (m1, c1, m2, c2) in ((R(30), R(12), R(25), None), (R(30), None, R(25), R(3)), (R(8), R(200), R(40), b""), (R(40), b"", R(8), None)):
                i1 = K.api_sign(s, sk, m1, c1); i2 = K.api_sign(s, sk, m2, c2)
                L.append(i1); L.append(i2)
                L.append("@impl %s::SecretKey::sign_reuse %s %s %s %s %s" % (K.API[s], sk, K.hx(m1), K.ctxs(c1), K.hx(m2), K.ctxs(c2)))
                _st.setdefault("reuse", []).append((L[-1], i1, i2))
        # calls that are refused half-way (a panic inside the operation: output buffer one byte short, public key one byte
        # short) between calls that must go on answering as before - whatever a failed call leaves behind (a lock, a
        # half-written scratch area) must not reach the next one
        done = set()
        for (s, msg, pk, r) in _st["sigreq"]:
            if s in done:
                continue
            done.add(s)
            sig = K.sig_of(checked[lines.index(r)]) if r in lines else None
            if not sig:
                continue
            t = r.split()
            kgl = [l for l in pool if l.startswith("sign::%s::keypair " % s)][0]
            good = K.verify_raw(s, sig, msg, pk)
            short_sig = "sign::%s::signature_cap -1 %s %s 0 -" % (s, t[1], t[2])
            short_key = "sign::%s::keypair_cap -1 %s -" % (s, kgl.split()[1])
            short_pk = K.verify_raw(s, sig, msg, pk[:-2])
            seqs.append([r, short_sig, r, good, short_pk, good, kgl, short_key, kgl, r, short_sig, short_sig, r])
        kg = [l for l in pool if "::keypair" in l]
        sg = [l for l in pool if "::signature" in l]
        mixed = []
        for a, b2 in zip(kg, sg):
            mixed += [a, b2]
        seqs.append(mixed + mixed[::-1] + mixed)
        for q in seqs:
            for l in q:
                if l not in _st["iso"]:
                    _st["iso"].add(l); L.append(("@impl " + l) if "_cap " in l else l)      # (the model has no buffer sizes)
            L.append("@impl sequence " + " ;; ".join(q))
        # history: randomized operations in between, then the pool again in shuffled order (sequential process)
        sh = list(pool); rng.shuffle(sh)
        for i, l in enumerate(sh):
            if i % 5 == 0:
                t = l.split()
                if "::signature" in t[0]:
                    L.append("@impl " + " ".join(t[:3]) + " 1 real")
            L.append(l + " ")      # trailing blank: a distinct request line with the same meaning
        return L
    if stage == 4:
        # several verifications on ONE PublicKey object (accepted and rejected calls mixed, contexts of different shapes):
        # each decision must be the one a fresh object gives
        idx = {l: i for i, l in enumerate(lines)}
        for (rl, i1, i2) in _st.get("reuse", []):
            if i1 not in idx or i2 not in idx:
                continue
            s1 = K.sig_of(checked[idx[i1]]); s2 = K.sig_of(checked[idx[i2]])
            if not s1 or not s2:
                continue
            t1 = i1.split(); t2 = i2.split()
            api = t1[0].split("::")[0]
            s = [k for k, v in K.API.items() if v == api][0]
            pk = [p_ for (s_, m_, p_, r_) in _st["sigreq"] if s_ == s and r_.split()[2] == t1[1]]
            if not pk:
                continue
            pk = pk[0]
            m1, c1, m2, c2 = t1[2], t1[3], t2[2], t2[3]
            for (a, b) in (((m1, s1, c1), (m2, s2, c2)), ((m1, s2, c1), (m2, s2, c2)), ((m2, s2, c2), (m1, s2, c1)), ((m1, s1, c2), (m1, s1, c1))):
                va = "%s::PublicKey::verify %s %s %s %s" % (api, pk, a[0], a[1], a[2])
                vb = "%s::PublicKey::verify %s %s %s %s" % (api, pk, b[0], b[1], b[2])
                vr = "@impl %s::PublicKey::verify_reuse %s %s %s %s %s %s %s" % (api, pk, a[0], a[1], a[2], b[0], b[1], b[2])
                for l in (va, vb, vr):
                    if l not in _st["iso"]:
                        _st["iso"].add(l); L.append(l)
                _st.setdefault("vreuse", []).append((vr, va, vb))
        return L
    return []


def violated_all(lines, model, checked, release):
    out = []
    idxl = {l: i for i, l in enumerate(lines)}
    for (rl, i1, i2) in _st.get("reuse", []):
        if rl in idxl and i1 in idxl and i2 in idxl:
            for prof, ans in (("checked", checked), ("wrapping", release)):
                want = "ok %s %s" % (ans[idxl[i1]][3:], ans[idxl[i2]][3:])
                if ans[idxl[rl]] != want:
                    out.append((idxl[rl], "%s build: two signing calls on one %s::SecretKey object do not return what each returns on a fresh object" % (prof, rl.split()[1].split("::")[0])))
    for (vr, va, vb) in _st.get("vreuse", []):
        if vr in idxl and va in idxl and vb in idxl:
            for prof, ans in (("checked", checked), ("wrapping", release)):
                want = "ok %s %s" % (ans[idxl[va]][3:], ans[idxl[vb]][3:])
                if ans[idxl[vr]] != want:
                    out.append((idxl[vr], "%s build: two verifications on one %s::PublicKey object answer %s, fresh objects answer %s" % (prof, vr.split()[1].split("::")[0], ans[idxl[vr]], want)))
    first = {}
    for i, l in enumerate(lines):
        if l.startswith("@impl interleave"):
            for prof, ans in (("checked", checked), ("wrapping", release)):
                if not ans[i].startswith("ok ") or " mismatches=0 " not in ans[i]:
                    out.append((i, "%s build: results changed under concurrent execution on %s threads: %s" % (prof, l.split()[2], ans[i][:120])))
        elif l.startswith("@impl sequence "):
            reqs = [x.strip() for x in l[len("@impl sequence "):].split(";;")]
            for prof, ans in (("checked", checked), ("wrapping", release)):
                got = [x.strip() for x in ans[i][3:].split(";;")] if ans[i].startswith("ok ") else []
                iso = {lines[k].replace("@impl ", "").strip(): ans[k] for k in range(len(lines))
                       if not lines[k].startswith("@") or (lines[k].startswith("@impl sign::") and "_cap " in lines[k])}
                for n, (rq, g) in enumerate(zip(reqs, got)):
                    if rq in iso and iso[rq] != g:
                        out.append((i, "%s build: call %d of an ordered history on one thread (%s) returned %s, but %s when run on its own" %
                                    (prof, n + 1, rq.split()[0], g[:40], iso[rq][:40])))
                        break
                if len(got) != len(reqs):
                    out.append((i, "%s build: ordered history not answered: %s" % (prof, ans[i][:80])))
        elif not l.startswith("@impl"):
            k = l.strip()
            if k in first:
                for prof, ans in (("checked", checked), ("wrapping", release)):
                    if ans[i] != ans[first[k]]:
                        out.append((i, "%s build: %s returned a different result after other operations had run" % (prof, k.split()[0])))
            else:
                first[k] = i
    return out


def nontrivial(line, model_ans):
    return not line.startswith("@impl")
