"""C08 — verification is total on untrusted bytes; no operation panics or overflows."""
from .. import scheme as K
from .. import pyspec as S
ID = "C08"
RULE = ("overflow-checked build (overflow-checks, debug-assertions) and wrapping build, each call under catch_unwind: adversarial "
        "signatures built inside the harness (hint area all 255, decreasing counters, counters > omega, z fields all-0 / all-1 bits, "
        "random index areas with consistent counters, random bytes, random and all-0x3FF public keys, every length around "
        "SIGNBYTES) must all be answered true/false without a panic, identically in both builds; a sample of them is also compared "
        "with the model (whose `ok` means no fault in checked semantics); honest keygen+sign+verify runs in the checked build. "
        "distinct_nontrivial = distinct requests; evaluations adds the calls made inside the scans. API-level sweeps over message lengths (0..70, around powers of two up to 2^16, around 4096-257) x contexts (none, empty, 1, 255 bytes), verify and sign, under catch_unwind. Crafted secret keys (extreme t0: attempts with far more than omega hints) must sign without fault.")
EXPLANATION = ("Props/C08.lean: the gates that answer false before any arithmetic (length, decoder, norm), nonce budget. The range "
               "analysis of the arithmetic path (`verify_total`) is not finished: partial; totality on the explored inputs is observed "
               "in the overflow-checked build.")
ASSUMPTIONS = ["panics are observed through catch_unwind in a build with overflow-checks and debug-assertions"]
_st = {}


def weight(line):
    t = line.split()
    if line.startswith("@impl scan::fuzzverify"):
        return int(t[4]) + 200
    if "_lens " in line:
        return len(t[-2].split(",")) * len(t[-1].split(","))
    return 1


def requests(tier, rng):
    L = [K.keygen(s, bytes(rng.randrange(256) for _ in range(32))) for s in K.SETS]
    # honest path at its rare branches: key seeds for which a secret polynomial needs one more SHAKE-256 block than usual
    # (eta = 4: a third block, about 1 seed in 3*10^4; found by search with hashlib, independent of the code)
    for s in ("lvl3", "ml_dsa_65"):
        for _ in range(1 if tier == "quick" else 4):
            xi = S.find_keygen_seed_eta_refill(S.P(s), 2, rng, budget=200000)
            if xi is not None:
                L.append(K.keygen(s, xi))
    return L


def followup(stage, lines, model, checked, release, tier, rng):
    R = lambda n: bytes(rng.randrange(256) for _ in range(n))
    L = []
    if stage == 1:
        for ln, ans in zip(lines, checked):
            if not ans.startswith("ok "):
                continue
            s = ln.split("::")[1]
            pk, sk = K.keys_of(ans)
            _st[s] = dict(pk=pk, sk=sk, req=K.sign_raw(s, b"totality", sk, 0))
            L.append(_st[s]["req"])
            L.append("@impl scan::honest %s %s %s" % (s, K.hx(R(32)), K.hx(R(rng.randrange(0, 300)))))
            # syntactically valid secret keys with an extreme t0 (attempts with far more than omega hints, long rejection
            # streaks): signing must complete in the overflow-checked build as well
            p0 = S.P(s)
            for frac in (0.35, 0.7 if p0.gamma2 == (S.Q - 1) // 88 else 1.0):
                csk = K.craft_sk(s, sk, p0.k, frac, rng)
                for _ in range(3 if tier == "quick" else 12):
                    L.append("@impl " + K.sign_raw(s, R(8), csk, 0))
        return L
    if stage == 2:
        idx = {l: i for i, l in enumerate(lines)}
        for s, st in _st.items():
            sig = K.sig_of(checked[idx[st["req"]]]) or "-"
            p = S.P(s)
            n = 400 if tier == "quick" else 20000
            L.append("@impl scan::fuzzverify %s %d %d %s %s" % (s, rng.randrange(1, 2**40), n, st["pk"], sig))
            # model-compared samples
            hoff = p.sig - p.omega - p.k
            base = bytearray(bytes.fromhex(sig)) if sig != "-" else bytearray(R(p.sig))
            cases = []
            w = bytearray(base); w[hoff:] = bytes([255]) * (p.omega + p.k); cases.append(w)
            w = bytearray(base); w[p.ctilde:hoff] = bytes(hoff - p.ctilde); cases.append(w)
            w = bytearray(base); w[p.ctilde:hoff] = bytes([255]) * (hoff - p.ctilde); cases.append(w)
            w = bytearray(base)
            for j in range(p.k):
                w[hoff + p.omega + j] = p.omega - j
            cases.append(w)
            cases.append(bytearray(R(p.sig)))
            w = bytearray(R(p.sig)); w[hoff:] = bytes(p.omega + p.k); cases.append(w)     # random z, empty hints: reaches the arithmetic
            w = bytearray(base); w[p.ctilde:hoff] = bytes([0xFF, 0xFF, 0x01] * ((hoff - p.ctilde) // 3 + 1))[:hoff - p.ctilde]; cases.append(w)
            for w in cases:
                L.append(K.verify_raw(s, bytes(w).hex(), b"totality", st["pk"]))
            allpk = bytes.fromhex(st["pk"])[:32] + bytes([255]) * (p.pk - 32)        # t1 all 0x3FF
            L.append(K.verify_raw(s, sig, b"totality", allpk.hex()))
            L.append(K.verify_raw(s, bytes(cases[5]).hex(), b"totality", allpk.hex()))
            for n2 in (0, 1, p.sig - 1, p.sig + 1, p.sig + 8):
                L.append(K.verify_raw(s, R(n2).hex() if n2 else "-", b"totality", st["pk"]))
            L.append(K.verify_raw(s, sig, b"totality", st["pk"][:-2]))     # short public key: refused (panic) in both
            # the API wrappers frame the message themselves: every message length up to 70, around each power of two up to
            # 2^16 and around 4096 - 255 - 2, times no / empty / 1-byte / 255-byte context, verifying (a well-formed
            # signature, so the whole path runs) and signing
            lens = sorted(set(range(0, 71)) | {2**e + d for e in range(6, 17) for d in range(-3, 4)} | set(range(3836, 3846)) | set(range(4090, 4101)))
            slens = sorted(set(range(0, 71, 3)) | {2**e + d for e in (6, 7, 8, 10, 12, 13, 16) for d in (-2, -1, 0, 1)} | {3838, 3839, 3840, 3841, 4094, 4097})
            if tier == "quick":
                slens = slens[::2] + [4095, 4096]
            cl = "n,0,1,255" if p.mldsa else "n"
            L.append("@impl %s::PublicKey::verify_lens %s %s %s %s" % (K.API[s], st["pk"], sig, ",".join(map(str, lens)), cl))
            L.append("@impl %s::SecretKey::sign_lens %s %s %s" % (K.API[s], st["sk"], ",".join(map(str, slens)), cl))
        return L
    return []


def violated_all(lines, model, checked, release):
    out = []
    for i, l in enumerate(lines):
        if l.startswith("@impl scan::fuzzverify"):
            for prof, ans in (("checked", checked), ("wrapping", release)):
                if not ans[i].startswith("ok ") or " panics=0 " not in ans[i]:
                    out.append((i, "%s build: verification panicked on adversarial bytes: %s" % (prof, ans[i][:200])))
            if checked[i] != release[i]:
                out.append((i, "checked and wrapping builds decide differently on adversarial signatures: %s vs %s" % (checked[i][:80], release[i][:80])))
        elif "_lens " in l:
            for prof, ans in (("checked", checked), ("wrapping", release)):
                if not ans[i].startswith("ok ") or " panics=0 " not in ans[i] or " none=0 " not in ans[i].replace("accepted=", "none=0 accepted="):
                    out.append((i, "%s build: %s over message and context lengths: %s" % (prof, l.split()[1], ans[i][:120])))
        elif l.startswith("@impl scan::honest"):
            for prof, ans in (("checked", checked), ("wrapping", release)):
                if ans[i] != "ok true":
                    out.append((i, "%s build: honest keygen+sign+verify: %s" % (prof, ans[i])))
        elif "::keypair " in l and not l.startswith("@"):
            for prof, ans in (("checked", checked), ("wrapping", release)):
                if not ans[i].startswith("ok "):
                    out.append((i, "%s build: key generation from a 32-byte seed did not complete: %s" % (prof, ans[i][:40])))
        elif l.startswith("@impl sign::") and "::signature " in l:
            for prof, ans in (("checked", checked), ("wrapping", release)):
                if not ans[i].startswith("ok "):
                    out.append((i, "%s build: signing with a syntactically valid secret key (extreme t0: attempts with many hints) did not complete: %s" % (prof, ans[i][:40])))
        elif "::signature " in l and not l.startswith("@"):
            for prof, ans in (("checked", checked), ("wrapping", release)):
                if not ans[i].startswith("ok "):
                    out.append((i, "%s build: signing with a generated key did not complete: %s" % (prof, ans[i][:40])))
        elif "::verify " in l:
            t = l.split()
            p = S.P(t[0].split("::")[1])
            if len(t[3]) // 2 == p.pk:
                for prof, ans in (("checked", checked), ("wrapping", release)):
                    if ans[i] not in ("ok true", "ok false"):
                        out.append((i, "%s build: verify did not return a boolean: %s" % (prof, ans[i][:40])))
    return out


def nontrivial(line, model_ans):
    return True
