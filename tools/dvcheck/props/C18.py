"""C18 — infinity-norm check is exact on reduced coefficients."""
ID = "C18"
Q = 8380417
QB = (Q - 1) // 8
KL = {"lvl2": (4, 4), "lvl3": (6, 5), "lvl5": (8, 7)}
BOUNDS = sorted({131072 - 78, 524288 - 196, 524288 - 120, 95232 - 78, 261888 - 196, 261888 - 120, 95232, 261888, 1, QB, QB + 1})
RULE = ("one polynomial per request: random background strictly inside the bound and one spike of value +-(B-1), +-B, +-(B+1), "
        "+-6283009 at each of the 256 positions, for every bound the six parameter sets use and the boundary bounds "
        "1, (q-1)/8, (q-1)/8+1 (also 0, -1, i32::MAX); vector wrappers with the spike in every component. The expected answer is "
        "computed independently from the definition. distinct_nontrivial = distinct requests whose spike is within 1 of the bound. Rows with 256/255/128/2 offending coefficients at every bound (polynomial and vector level).")
EXPLANATION = "Props/C18.lean proves exactness for every list, position and bound; the tie enumerates the position x boundary-value x bound grid on the code."
ASSUMPTIONS = []


def exhaustive(tier):
    return True


def fmt(p):
    return ",".join(str(x) for x in p)


def background(rng, b):
    lim = max(0, min(b - 1, 6283009))
    if lim <= 0:
        return [0] * 256
    return [rng.randrange(-lim + 1, lim) if lim > 1 else 0 for _ in range(256)]


def requests(tier, rng):
    L = []
    for b in BOUNDS:
        vals = [b - 1, -(b - 1), b, -b] + ([b + 1, -(b + 1)] if tier == "thorough" else [])
        bg = background(rng, b)
        for pos in range(256):
            for v in vals:
                if abs(v) > 6283009:
                    continue
                p = list(bg); p[pos] = v
                L.append("poly::chknorm %s %d" % (fmt(p), b))
        for pos in (0, 1, 128, 254, 255):
            for v in (6283009, -6283009, 0):
                p = list(bg); p[pos] = v
                L.append("poly::chknorm %s %d" % (fmt(p), b))
        L.append("poly::chknorm %s %d" % (fmt(bg), b))
        if 1 <= b <= 6283009:
            for cnt in (256, 255, 128, 2):
                L.append("poly::chknorm %s %d" % (fmt([b if j < cnt else 0 for j in range(256)]), b))
                L.append("poly::chknorm %s %d" % (fmt([-b if j >= 256 - cnt else 0 for j in range(256)]), b))
    for b in (0, -1, 2**31 - 1, -2**31, QB + 2, 2 * QB):
        L.append("poly::chknorm %s %d" % (fmt([0] * 256), b))
        L.append("poly::chknorm %s %d" % (fmt([1] + [0] * 255), b))
    # vector wrappers: spike in each component
    for lv, (k, l) in KL.items():
        for fn, n in (("l_chknorm", l), ("k_chknorm", k)):
            for b in (BOUNDS if tier == "thorough" else [95154, 261888, 524092, QB, QB + 1, 1]):
                bgs = [background(rng, b) for _ in range(n)]
                L.append("polyvec::%s::%s %s %d" % (lv, fn, ";".join(fmt(p) for p in bgs), b))
                for comp in range(n):
                    for pos in (0, 255, rng.randrange(1, 255)):
                        for v in (b - 1, b, -b):
                            if abs(v) > 6283009:
                                continue
                            v2 = [list(p) for p in bgs]
                            v2[comp][pos] = v
                            L.append("polyvec::%s::%s %s %d" % (lv, fn, ";".join(fmt(p) for p in v2), b))
                # rows in which all 256 coefficients offend (and 255, 128, 2): a count that does not fit a byte, a sum of
                # flags, a parity -- anything but "some coefficient offends" goes wrong here
                for comp in range(n):
                    for cnt in (256, 255, 128, 2):
                        for sg in (1, -1):
                            if b > 6283009 or b < 1:
                                continue
                            v2 = [list(p) for p in bgs]
                            v2[comp] = [sg * b if j < cnt else 0 for j in range(256)]
                            L.append("polyvec::%s::%s %s %d" % (lv, fn, ";".join(fmt(p) for p in v2), b))
                if 1 <= b <= 6283009:
                    L.append("polyvec::%s::%s %s %d" % (lv, fn, ";".join(fmt([-b] * 256) for _ in range(n)), b))
                    L.append("polyvec::%s::%s %s %d" % (lv, fn, ";".join(fmt([b if (j + i) % 2 else 0 for j in range(256)]) for i in range(n)), b))
    return L


def spec(line):
    t = line.split()
    b = int(t[-1])
    polys = [[int(x) for x in p.split(",")] for p in t[1].split(";")]
    if any(abs(x) >= 2**30 for p in polys for x in p):
        return None
    if b > QB:
        return 1
    return 1 if any(abs(x) >= b for p in polys for x in p) else 0


def violated(line, checked, release):
    e = spec(line)
    if e is None:
        return None
    for prof, ans in (("checked", checked), ("wrapping", release)):
        if ans != "ok %d" % e:
            t = line.split()
            polys = [[int(x) for x in p.split(",")] for p in t[1].split(";")]
            b = int(t[-1])
            m = max(abs(x) for p in polys for x in p)
            return "%s build: %s with bound %d and max |coeff| = %d answered %s, the definition says %d" % (prof, t[0], b, m, ans, e)
    return None


def nontrivial(line, model_ans):
    t = line.split()
    b = int(t[-1])
    m = max(abs(int(x)) for p in t[1].split(";") for x in p.split(","))
    return abs(m - b) <= 1


def search(tier, rng):
    L = []
    for b in (95154, 261888, 524092, 1, QB):
        for pos in (0, 255, 77):
            for v in (b, -b, b - 1):
                p = [0] * 256; p[pos] = v
                L.append("poly::chknorm %s %d" % (fmt(p), b))
    return L
