"""C05 — signing is the specification's function of key, message and randomness."""
import json, os
from .. import scheme as K
from .. import pyspec as S
from .. import core
ID = "C05"
SPEC_ORACLE = ['shake', 'bits', 'samplers', 'rounding']   # specification definitions used by Props/C05.lean are compared with hashlib / pyspec on every run
RULE = ("keys from random seeds x 6 sets; messages of length 0, 1 and the lengths that straddle the 136-byte SHAKE-256 block once the "
        "32/64-byte key hash (and the ML-DSA framing) is prepended, plus long ones; deterministic mode, hedged / randomized mode with "
        "the RNG tap serving a scripted tape (the model receives the same tape), contexts and both pre-hash functions through the "
        "API; the repo's NIST signature vectors as external known answers. distinct_nontrivial = distinct signing requests whose "
        "model answer is a signature. Twin requests: signing into buffers 1/33/64 bytes longer than SIGNBYTES must write the same signature; output buffers pre-filled with a byte that changes per call.")
EXPLANATION = ("Props/C05.lean: signing_is_spec_function - the signature returned is the unique output of the specification's rejection loop (SignSpec.Accepts = body of FIPS 204 Alg. 7 / Dilithium 3.1 Sign, written with specification-level objects) on the decoded key, mu = H(tr || M') and rho'' = rhoPrimeSpec of K, mu and exactly the 0 / 32 / 64 bytes drawn; per iteration the model returns accept sigma iff the specification accepts with sigma. The tie makes the model answerable to the code: byte-exact agreement over messages, contexts, modes, crafted keys with long rejection streaks, scripted RNG tapes, NIST signature vectors.")
ASSUMPTIONS = ["no offline ML-DSA signing oracle exists in the sandbox: ML-DSA signatures are anchored on the Dilithium KATs for the shared body, the OpenSSL KeyGen KATs, and review of the FIPS 204 deltas"]
_st = {}


def kat():
    d = json.load(open(os.path.join(core.VERIF, "kat", "dilithium_repo_kats.json")))
    return [v for v in d["vectors"] if v["kind"] == "signature"]


TWINS = []


def requests(tier, rng):
    del TWINS[:]
    L = [K.keygen(s, bytes(rng.randrange(256) for _ in range(32))) for s in K.SETS]
    for v in kat():
        L.append("sign::%s::signature %s %s 0 -" % (v["set"], v["msg"], v["sk"]))
    return L


def expected(line):
    t = line.split()
    for v in kat():
        if t[0] == "sign::%s::signature" % v["set"] and t[1] == v["msg"] and t[2] == v["sk"] and t[3] == "0":
            return "ok " + v["sig"]
    return None


def violated(line, checked, release):
    e = expected(line)
    if e is None:
        return None
    for prof, ans in (("checked", checked), ("wrapping", release)):
        if ans != e:
            return "%s build: %s does not reproduce the known-answer signature" % (prof, line.split()[0])
    return None


def followup(stage, lines, model, checked, release, tier, rng):
    if stage != 1:
        return []
    L = []
    R = lambda n: bytes(rng.randrange(256) for _ in range(n))
    for ln, ans in zip(lines, checked):
        if "::keypair" not in ln or not ans.startswith("ok "):
            continue
        s = ln.split("::")[1]
        p = S.P(s)
        pk, sk = K.keys_of(ans)
        pre = p.tr + (2 if p.mldsa else 0)
        lens = sorted({0, 1, 136 - pre - 1, 136 - pre, 136 - pre + 1, 272 - pre, 200} | ({33, 700} if tier == "thorough" else set()))
        for n in lens:
            msg = R(n)
            L.append(K.sign_raw(s, msg, sk, 0))
        # crafted secret keys (extreme t0): the ||c t0|| and hint-count rejections, exactly-omega hints -- branches that
        # honest keys reach with probability < 1e-4; the signature need not verify, it must be the specification's
        for frac in (0.2, 0.35, 0.5, 0.7):
            csk = K.craft_sk(s, sk, p.k, frac, rng)
            for _ in range(8 if tier == "quick" else 60):
                L.append(K.sign_raw(s, R(8), csk, 0))
        csk = K.craft_sk(s, sk, 1, 1.0, rng)
        for _ in range(4 if tier == "quick" else 120):
            L.append(K.sign_raw(s, R(8), csk, 0))
        # caller's signature buffer longer than SIGNBYTES (the raw entry point takes a slice): same signature in front
        for j, extra in enumerate((1, 33, 64)):
            ref = [l for l in L if l.startswith("sign::%s::signature " % s) and l.split()[2] == sk][j * 2]
            t = ref.split()
            tw = "@impl sign::%s::signature_cap %d %s %s 0 -" % (s, extra, t[1], t[2])
            L.append(tw)
            TWINS.append((tw, ref, "signing into a buffer %d bytes longer than SIGNBYTES must write the same signature" % extra))
        msg = R(50)
        L.append(K.sign_raw(s, msg, sk, 1, R(70)))      # hedged / randomized with a scripted tape
        L.append(K.sign_raw(s, msg, sk, 1, R(70)))
        L.append(K.api_sign(s, sk, msg))
        if p.mldsa:
            for ctx in (None, b"", b"ctx", R(255)):
                L.append(K.api_sign(s, sk, msg, ctx, 0))
                L.append(K.api_sign(s, sk, msg, ctx, 1, R(40)))
            for ph in ("sha256", "sha512"):
                L.append(K.api_prehash_sign(s, sk, msg, b"c", 0, ph))
                L.append(K.api_prehash_sign(s, sk, msg, None, 1, ph, R(32)))
    return L


def nontrivial(line, model_ans):
    return ("signature" in line or "sign " in line) and model_ans.startswith("ok ") and len(model_ans) > 100
