"""C06 — emitted signatures respect the rejection bounds that protect the secret key."""
from .. import scheme as K
from .. import pyspec as S
ID = "C06"
RULE = ("every signature the implementation returns (raw and API entry points, deterministic, hedged / randomized with the REAL "
        "RNG, contexts, pre-hash) is decoded by the model with the known secret key and the five conditions are evaluated: "
        "canonical hints, ||z|| < gamma1-beta, <= omega hints, ||LowBits(Ay - c s2)|| < gamma2-beta, ||c t0|| < gamma2, "
        "c~ = H(mu || w1Encode(HighBits(Ay))) with y = z - c s1. The judge itself is checked on signatures that a signer skipping "
        "one test would emit (forged by the model: must FAIL the judge). distinct_nontrivial = distinct analysed signatures. Volume: scan::judgemany re-derives 48 000 / 192 000 signatures per set and build with the secret key (harness/src/judge.rs).")
EXPLANATION = ("Props/C06.lean: an emitted signature is the packing of an iteration in which none of the four tests fired, applied to "
               "the quantities the specification names. The identification of those quantities with y = z - c s1 etc. (ring algebra) is "
               "not a theorem yet: partial; the judge evaluates them numerically for every emitted signature.")
ASSUMPTIONS = ["the judge is model code outside the tied model of the crate (lean/DilithiumVerif/Driver/Forge.lean); it is validated against deliberately invalid signatures on every run"]
_st = {"an": [], "neg": []}


IMPL_SHARDS = 16


def weight(line):
    if line.startswith("@impl scan::judgemany"):
        return int(line.split()[4])
    return 1


def requests(tier, rng):
    L = [K.keygen(s, bytes(rng.randrange(256) for _ in range(32))) for s in K.SETS]
    # volume on the implementation (harness/src/judge.rs): under one generated key per set, sign many messages and re-derive
    # with the secret key the quantities the rejection tests are about (y = z - c s1 a mask, |LowBits(Ay - c s2)| < gamma2 - beta
    # with the high bits of Ay, |c t0| < gamma2, |z| < gamma1 - beta, the hint vector = MakeHint bit for bit, <= omega ones);
    # Decompose / MakeHint / the bounds are recomputed from the definitions with plain integers. A margin that is wrong by
    # a few units shows once in 10^4..10^5 signatures.
    chunk = 3000 if tier == "quick" else 12000
    for s in K.SETS:
        seed = K.hx(bytes(rng.randrange(256) for _ in range(32)))
        for c in range(16):
            L.append("@impl scan::judgemany %s %s %d %d" % (s, seed, chunk, c * chunk))
    return L


def followup(stage, lines, model, checked, release, tier, rng):
    R = lambda n: bytes(rng.randrange(256) for _ in range(n))
    L = []
    if stage == 1:
        _st["keys"] = {}
        for ln, ans in zip(lines, checked):
            if "::keypair" in ln and ans.startswith("ok "):
                s = ln.split("::")[1]
                p = S.P(s)
                pk, sk = K.keys_of(ans)
                _st["keys"][s] = (pk, sk)
                reps = 3 if tier == "quick" else 20
                for _ in range(reps):
                    msg = R(rng.randrange(0, 80))
                    L.append(K.sign_raw(s, msg, sk, 0))
                    _st["an"].append((L[-1], s, sk, msg))
                    L.append("@impl sign::%s::signature %s %s 1 real" % (s, K.hx(msg), sk))
                    _st["an"].append((L[-1], s, sk, msg))
                if p.mldsa:
                    msg = R(33); ctx = R(9)
                    L.append("@impl " + K.api_sign(s, sk, msg, ctx, 1).rsplit(" ", 1)[0] + " real")
                    _st["an"].append((L[-1], s, sk, K.frame(msg, ctx)))
                    t = K.api_prehash_sign(s, sk, msg, ctx, 1, "sha256").split(" "); t[6] = "real"
                    L.append("@impl " + " ".join(t))
                    _st["an"].append((L[-1], s, sk, K.frame(msg, ctx, "sha256")))
                # crafted secret keys (extreme t0) make the ||c t0|| >= gamma2 and hint-count rejections reachable
                small = p.gamma2 == (K.S.Q - 1) // 88
                # (all rows extreme: most iterations are rejected -- about 16 per signature for gamma2 = (q-1)/32 with k = 6, hundreds
                # for the other sets -- so that long rejection streaks, where an attempt cap or a "give up and return" path would
                # show, are reached)
                # (tuned so that the u16 nonce budget of the code, 65535 / l iterations, is never approached: gamma2 = (q-1)/88
                # with 70 % extreme coefficients rejects about 60 iterations per signature)
                for (mm, fr, cnt) in ((1, 1.0, (150 if small else 10)), (p.k, 0.3, 20), (p.k, (0.7 if small else 1.0), (40 if small else (120 if p.k == 6 else 30)))):
                    csk = K.craft_sk(s, sk, mm, fr, rng)
                    for _ in range(cnt if tier == "quick" else 4 * cnt):
                        msg = R(6)
                        L.append("@impl sign::%s::signature %s %s 0 -" % (s, K.hx(msg), csk))
                        _st["an"].append((L[-1], s, csk, msg))
                # judge validation: signatures a test-skipping signer would emit
                msg = R(20)
                for kind in ("z-over", "r0-skip"):
                    L.append("@model forge %s %s %s %s %d" % (s, kind, sk, K.hx(msg), 40))
                    _st["neg"].append((L[-1], s, sk, msg, kind))
        return L
    if stage == 2:
        idx = {l: i for i, l in enumerate(lines)}
        for (req, s, sk, msg) in _st["an"]:
            sig = K.sig_of(checked[idx[req]])
            if sig:
                L.append("@model analyze %s %s %s %s" % (s, sk, K.hx(msg), sig))
        for (req, s, sk, msg, kind) in _st["neg"]:
            m = model[idx[req]]
            if m.startswith("ok ") and m != "ok none":
                ln = "@model analyze %s %s %s %s" % (s, sk, K.hx(msg), m.split()[3])
                _st.setdefault("negan", []).append((ln, kind))
                L.append(ln)
        return L
    return []


def violated_all(lines, model, checked, release):
    out = []
    neg = dict(_st.get("negan", []))
    for i, l in enumerate(lines):
        if l.startswith("@impl scan::judgemany "):
            t = l.split()
            for prof, ans in (("checked", checked), ("wrapping", release)):
                if ans[i] != "ok judged=%s bad=-" % t[4]:
                    out.append((i, "%s build: %s signatures of messages %s.. under the key of seed %s: %s" % (prof, t[2], t[5], t[3][:16], ans[i][:120])))
                    break
        if l.startswith("@model analyze "):
            if l in neg:
                want = {"z-over": "z-norm", "r0-skip": "lowbits-norm"}[neg[l]]
                if want not in model[i]:
                    out.append((i, "the C06 judge did not flag a signature forged with a skipped %s test: %s" % (want, model[i])))
            elif model[i] != "ok pass":
                out.append((i, "a signature emitted by the implementation (%s) violates the rejection bounds: %s" % (l.split()[2], model[i])))
    return out


def finding_key(line):
    return "emitted-signature-outside-bounds"


def nontrivial(line, model_ans):
    return line.startswith("@model analyze")
