"""C03 — verification decides exactly as the specification (strict decoding, bounds)."""
import json, os
from .. import scheme as K
from .. import pyspec as S
from .. import core
ID = "C03"
SPEC_ORACLE = ['shake', 'bits', 'samplers', 'rounding']   # specification definitions used by Props/C03.lean are compared with hashlib / pyspec on every run
RULE = ("per set: (a) hash-consistent near-misses built by the MODEL with the secret key -- the first signing iteration that fails "
        "only the z-norm test (must be rejected), the second accepted iteration (`another conforming signer`, must be accepted), the "
        "accepted iteration with the largest response among the first iterations (boundary side, must be accepted); (b) non-canonical "
        "but otherwise consistent hint sections derived from valid signatures: two indices swapped, index repeated, non-zero "
        "padding, counter decreased, counter > omega (all rejected), (c) random byte strings, the repo's KAT verify vectors. The "
        "model is the judge, the implementation must answer the same; the near-miss verdicts are also asserted directly. "
        "distinct_nontrivial = distinct verify requests on forged or manipulated signatures. The degenerate key s1 = s2 = 0 (signatures without any hint: must be accepted); every row's counter lowered below the running total; a row ending at position 255 re-ordered.")
EXPLANATION = ('Props/C03.lean: verify_iff_spec - verify returns true exactly when VerifyFips.IsAccepted (FIPS 204 Alg. 8 / Dilithium 3.1 Verify as a relation over specification-level objects) holds, for every byte string; strict hint decoding and decoders = inverses of the encoders are theorems. The tie compares model and code on model-forged near-misses, non-canonical encodings, other-signer signatures and vectors; the model is the judge.')
ASSUMPTIONS = ["the verdict of the specification is taken from the Lean model of verify (anchored on the NIST vectors), plus directly asserted verdicts for forged cases"]
_st = {"cases": []}


def kat():
    d = json.load(open(os.path.join(core.VERIF, "kat", "dilithium_repo_kats.json")))
    return [v for v in d["vectors"] if v["kind"] == "verify"]


def requests(tier, rng):
    L = [K.keygen(s, bytes(rng.randrange(256) for _ in range(32))) for s in K.SETS]
    for v in kat():
        ln = "sign::%s::verify %s %s %s" % (v["set"], v["sig"], v["msg"], v["pk"])
        _st["cases"].append((ln, True, "kat"))
        L.append(ln)
    return L


def followup(stage, lines, model, checked, release, tier, rng):
    R = lambda n: bytes(rng.randrange(256) for _ in range(n))
    L = []
    if stage == 1:
        _st["keys"] = {}
        for ln, ans in zip(lines, checked):
            if "::keypair" in ln and ans.startswith("ok "):
                s = ln.split("::")[1]
                pk, sk = K.keys_of(ans)
                msg = R(24)
                _st["keys"][s] = (pk, sk, msg)
                n = 40 if tier == "quick" else 400
                for kind in ("z-over", "z-over-min", "later-accept", "z-near"):
                    L.append("@model forge %s %s %s %s %d" % (s, kind, sk, K.hx(msg), n if kind not in ("z-near",) else n // 2))
                # more keys/messages for the closest-above-the-bound forgery: a verifier with a slightly loosened bound accepts only those
                for _ in range(3 if tier == "quick" else 12):
                    m2 = R(16)
                    L.append("@model forge %s z-over-min %s %s %d" % (s, sk, K.hx(m2), n))
                L.append(K.sign_raw(s, msg, sk, 0))
            # the degenerate key s1 = s2 = 0 (t = 0): specification-valid signatures without any hint (all rows empty)
            zpk, zsk = K.zero_key(s, R(32), R(32))
            zmsg = R(24)
            zr = K.sign_raw(s, zmsg, zsk, 0)
            _st.setdefault("zero", {})[zr] = (s, zpk, zmsg)
            L.append(zr)
            # an honest signature with a hint row (>= 2 entries) that ends at position 255 (searched on the implementation)
            L.append("@impl scan::findsig255 %s %s %d" % (s, sk, 400))
        return L
    if stage == 2:
        for ln, m, c in zip(lines, model, checked):
            if ln.startswith("@model forge ") and m.startswith("ok ") and m != "ok none":
                t = ln.split()
                s, kind = t[2], t[3]
                pk, sk, _m0 = _st["keys"][s]
                msg = K.unhx(t[5])
                sig = m.split()[3]
                v = K.verify_raw(s, sig, msg, pk)
                _st["cases"].append((v, not kind.startswith("z-over"), kind + " zmax=" + m.split()[2]))
                L.append(v)
            elif ln in _st.get("zero", {}) and c.startswith("ok ") and c != "ok none":
                s, zpk, zmsg = _st["zero"][ln]
                p = S.P(s)
                sig = bytearray(bytes.fromhex(c.split()[1]))
                hoff = p.sig - p.omega - p.k
                def emitz(w, what, expect=False):
                    v = K.verify_raw(s, bytes(w).hex(), zmsg, zpk)
                    _st["cases"].append((v, expect, what)); L.append(v)
                emitz(bytearray(sig), "valid-no-hints-all-rows-empty", True)
                if any(sig[hoff:]):
                    _st["cases"].append((ln, None, "degenerate key produced hints"))
                w = bytearray(sig); w[hoff + p.omega] = 1; emitz(w, "empty-rows-first-counter-raised")       # counter 1, later counters 0: decreasing
                w = bytearray(sig); w[hoff] = 7; emitz(w, "empty-rows-index-byte-nonzero")
            elif ln.startswith("@impl scan::findsig255 ") and c.startswith("ok ") and c != "ok none":
                s = ln.split()[2]
                pk, sk, _m0 = _st["keys"][s]
                p = S.P(s)
                tt = c.split()
                msg2 = K.unhx(tt[1]); sig = bytearray(bytes.fromhex(tt[2])); row = int(tt[3])
                hoff = p.sig - p.omega - p.k
                end = sig[hoff + p.omega + row]
                def emit2(w, what, expect=False):
                    v = K.verify_raw(s, bytes(w).hex(), msg2, pk)
                    _st["cases"].append((v, expect, what)); L.append(v)
                w = bytearray(sig); w[hoff + end - 1], w[hoff + end - 2] = w[hoff + end - 2], w[hoff + end - 1]
                emit2(w, "hint-reorder-after-255")       # same hint set, positions .., 255, x: not increasing
                w = bytearray(sig); w[hoff + end - 2] = 255
                emit2(w, "hint-repeat-255")
                emit2(bytearray(sig), "valid-row-ending-255", True)
            elif "::signature " in ln and c.startswith("ok "):
                s = ln.split("::")[1]
                pk, sk, msg = _st["keys"][s]
                p = S.P(s)
                sig = bytearray(bytes.fromhex(c.split()[1]))
                hoff = p.sig - p.omega - p.k
                cnt = list(sig[hoff + p.omega:])
                tot = cnt[-1]
                def emit(w, what, expect=False):
                    v = K.verify_raw(s, bytes(w).hex(), msg, pk)
                    _st["cases"].append((v, expect, what)); L.append(v)
                # polynomial with at least two hints
                start = 0
                done = False
                for i in range(p.k):
                    if cnt[i] - start >= 2 and not done:
                        w = bytearray(sig); w[hoff + start], w[hoff + start + 1] = w[hoff + start + 1], w[hoff + start]
                        emit(w, "hint-reorder")
                        w = bytearray(sig); w[hoff + start + 1] = w[hoff + start]
                        emit(w, "hint-repeat")
                        done = True
                    if cnt[i] - start >= 2 and cnt[i] <= p.omega:
                        e = cnt[i]
                        w = bytearray(sig); w[hoff + e - 1], w[hoff + e - 2] = w[hoff + e - 2], w[hoff + e - 1]
                        emit(w, "hint-reorder-last-two-row%d" % i)
                    start = cnt[i]
                # a polynomial whose first hint is at position 0: repeat that 0 (shift the rest up, bump the counters): decodes to the
                # same hint vector, so the challenge hash still matches; the encoding is not canonical
                if tot < p.omega:
                    start = 0
                    for i in range(p.k):
                        if cnt[i] > start and sig[hoff + start] == 0:
                            w = bytearray(sig)
                            area = list(sig[hoff:hoff + tot])
                            area.insert(start, 0)
                            w[hoff:hoff + tot + 1] = bytes(area)
                            for j in range(i, p.k):
                                w[hoff + p.omega + j] = cnt[j] + 1
                            emit(w, "hint-repeat-zero")
                            break
                        start = cnt[i]
                if tot < p.omega:
                    w = bytearray(sig); w[hoff + tot] = 1; emit(w, "hint-padding")
                    w = bytearray(sig); w[hoff + p.omega - 1] = 255; emit(w, "hint-padding-last")
                if cnt[0] > 0:
                    w = bytearray(sig); w[hoff + p.omega + 1 if p.k > 1 else hoff + p.omega] = max(0, cnt[0] - 1) if p.k > 1 and cnt[1] >= cnt[0] else 0
                    emit(w, "hint-counter-decreased")
                # every row's counter lowered below the running total (for an empty row the decoded hint vector would not change)
                for i in range(1, p.k):
                    if cnt[i - 1] > 0:
                        w = bytearray(sig); w[hoff + p.omega + i] = cnt[i - 1] - 1
                        emit(w, "hint-counter-row%d-below-running-total%s" % (i, "-empty-row" if cnt[i] == cnt[i - 1] else ""))
                w = bytearray(sig); w[hoff + p.omega + p.k - 1] = p.omega + 1; emit(w, "hint-counter-above-omega")
                w = bytearray(sig); w[hoff + p.omega + p.k - 1] = 255; emit(w, "hint-counter-255")
                emit(bytearray(sig), "valid", True)
                emit(bytearray(R(p.sig)), "random")
        return L
    return []


def violated_all(lines, model, checked, release):
    out = []
    idx = {l: i for i, l in enumerate(lines)}
    for (v, expect, what) in _st["cases"]:
        if v in idx:
            want = "ok true" if expect else "ok false"
            for prof, ans in (("checked", checked), ("wrapping", release)):
                if ans[idx[v]] != want:
                    out.append((idx[v], "%s build: %s: verification answered %s where the specification prescribes %s (%s)" % (prof, v.split()[0], ans[idx[v]], want, what)))
    return out


def stats(lines, model):
    d = {}
    for (_, _, what) in _st["cases"]:
        k = what.split()[0]
        d[k] = d.get(k, 0) + 1
    d["forge_failed"] = sum(1 for l, m in zip(lines, model) if l.startswith("@model forge") and m == "ok none")
    return d


def nontrivial(line, model_ans):
    return "::verify " in line
