"""C07 — ML-DSA context and mode framing gives domain separation."""
from .. import scheme as K
ID = "C07"
RULE = ("3 ML-DSA sets: keys from random seeds; signing through the API under contexts of length none/0/1/2/254/255/256/257/1000, "
        "pure / SHA-256 / SHA-512 pre-hash; each API signature must equal the raw signature of the FIPS 204 representative M' built "
        "independently in Python (hashlib digests); verification under the same framing must accept, under every other "
        "(context, mode, hash) framing of the same message -- including ctx/message pairs with the same concatenation -- must reject; "
        "contexts > 255 bytes must give none / false. Messages of 2^16+1 and 2^20+1 bytes go through the same API = raw and cross-mode checks on the implementation. distinct_nontrivial = distinct requests. Messages of the digest sizes (32, 64 bytes); representatives and their tails offered as messages.")
EXPLANATION = ("Props/C07.lean: framing = FIPS 204 M', injectivity of the framing, >255 refusal, and acceptance of one signature for two "
               "different representatives exhibits an explicit SHAKE-256 collision. The tie checks all ordered framing pairs on the code.")
ASSUMPTIONS = ["SHA-256/512 digests from python hashlib are given to the model (sha2 crate is external to the crate under test)"]
_st = {}


def requests(tier, rng):
    return [K.keygen(s, bytes(rng.randrange(256) for _ in range(32))) for s in K.MLDSA]


def framings(rng):
    R = lambda n: bytes(rng.randrange(256) for _ in range(n))
    F = [(None, None), (b"", None), (b"a", None), (b"ab", None), (R(254), None), (R(255), None),
         (None, "sha256"), (b"", "sha512"), (b"ab", "sha256"), (b"ab", "sha512"), (R(255), "sha512")]
    return F


def followup(stage, lines, model, checked, release, tier, rng):
    L = []
    R = lambda n: bytes(rng.randrange(256) for _ in range(n))
    if stage == 1:
        for ln, ans in zip(lines, checked):
            s = ln.split("::")[1]
            if not ans.startswith("ok "):
                continue
            pk, sk = K.keys_of(ans)
            msgs = [b"c", b"bc", R(40), R(32), R(64)]      # incl. messages that have the size of a SHA-256 / SHA-512 digest
            _st[s] = dict(pk=pk, sk=sk, sigs=[])
            for msg in msgs:
                for (ctx, ph) in framings(rng):
                    if ph is None:
                        a = K.api_sign(s, sk, msg, ctx)
                    else:
                        a = K.api_prehash_sign(s, sk, msg, ctx, 0, ph)
                    raw = K.sign_raw(s, K.frame(msg, ctx, ph), sk)
                    _st[s]["sigs"].append((msg, ctx, ph, a, raw))
                    L.append(a); L.append(raw)
            # long messages (size-class boundaries 2^16, 2^20: where a length-dependent fast path would sit); implementation only:
            # API signature = raw signature of M', and cross-mode verification
            _st[s]["long"] = []
            for n in ((1 << 16) + 1, (1 << 20) + 1):
                msg = R(n)
                for (ctx, ph) in ((None, None), (b"ab", None), (None, "sha512")):
                    a = "@impl " + (K.api_sign(s, sk, msg, ctx) if ph is None else K.api_prehash_sign(s, sk, msg, ctx, 0, ph))
                    raw = "@impl " + K.sign_raw(s, K.frame(msg, ctx, ph), sk)
                    _st[s]["long"].append((msg, ctx, ph, a, raw))
                    L.append(a); L.append(raw)
            # |ctx| = 256 + k: `len as u8` wraps to k, and 0 || k || ctx || M is also the framing of (ctx[:k], ctx[k:] || M):
            # a signature made for the latter must NOT verify for (ctx, M)
            _st[s]["wrap"] = []
            for n in (256, 257, 300):
                c = R(n); k = n - 256; payload = R(10)
                a = K.api_sign(s, sk, c[k:] + payload, c[:k] if k else None)
                _st[s]["wrap"].append((a, c, payload))
                L.append(a)
            for n in (256, 257, 1000):
                c = R(n)
                L.append(K.api_sign(s, sk, b"m", c))
                L.append(K.api_prehash_sign(s, sk, b"m", c, 0, "sha256"))
                L.append(K.api_sign(s, sk, b"m", c, 1, R(32)))
        return L
    if stage == 2:
        idx = {l: i for i, l in enumerate(lines)}
        for s, st in _st.items():
            st["ver"] = []
            fr = framings(rng)
            for (msg, ctx, ph, a, raw) in st["sigs"]:
                sig = K.sig_of(checked[idx[a]])
                if sig is None:
                    continue
                # same framing: accept; every other framing of the same message: reject
                for (c2, p2) in fr if (msg == b"c" or tier == "thorough") else fr[:4] + fr[6:8]:
                    v = K.api_verify(s, st["pk"], msg, sig, c2) if p2 is None else K.api_prehash_verify(s, st["pk"], msg, sig, c2, p2)
                    same = (K.frame(msg, ctx, ph) == K.frame(msg, c2, p2))
                    st["ver"].append((v, same))
                    L.append(v)
                # the representative itself (or its tail) offered as the message, under no / empty context and in pre-hash
                # mode: an API that also tries the unframed bytes would accept here; and the bare message at the raw level
                if msg == b"bc" or (tier == "thorough" and msg == b"c"):
                    F = K.frame(msg, ctx, ph)
                    for m2 in (F, F[1:], F[2:]):
                        for (c2, p2) in ((None, None), (b"", None), (None, "sha256")):
                            if K.frame(m2, c2, p2) == F:
                                continue
                            v = K.api_verify(s, st["pk"], m2, sig, c2) if p2 is None else K.api_prehash_verify(s, st["pk"], m2, sig, c2, p2)
                            st["ver"].append((v, False)); L.append(v)
                    v = K.verify_raw(s, sig, msg, st["pk"]); st["ver"].append((v, False)); L.append(v)
                # same concatenation ctx||M, different split
                if ctx == b"ab" and msg == b"c" and ph is None:
                    v = K.api_verify(s, st["pk"], b"bc", sig, b"a"); st["ver"].append((v, False)); L.append(v)
                if ctx == b"a" and msg == b"bc" and ph is None:
                    v = K.api_verify(s, st["pk"], b"c", sig, b"ab"); st["ver"].append((v, False)); L.append(v)
            for (msg, ctx, ph, a, raw) in st.get("long", []):
                sig = K.sig_of(checked[idx[a]])
                if sig is None:
                    continue
                for (c2, p2) in ((None, None), (b"ab", None), (None, "sha512"), (None, "sha256")):
                    v = "@impl " + (K.api_verify(s, st["pk"], msg, sig, c2) if p2 is None else K.api_prehash_verify(s, st["pk"], msg, sig, c2, p2))
                    st["ver"].append((v, K.frame(msg, ctx, ph) == K.frame(msg, c2, p2)))
                    L.append(v)
            for (a, c, payload) in st.get("wrap", []):
                sg = K.sig_of(checked[idx[a]])
                if sg:
                    v = K.api_verify(s, st["pk"], payload, sg, c); st["ver"].append((v, False)); L.append(v)
            sig0 = None
            for (msg, ctx, ph, a, raw) in st["sigs"]:
                sig0 = K.sig_of(checked[idx[a]])
                if sig0:
                    break
            for n in (256, 1000):
                v = K.api_verify(s, st["pk"], b"c", sig0, R(n)); st["ver"].append((v, False)); L.append(v)
                v = K.api_prehash_verify(s, st["pk"], b"c", sig0, R(n), "sha512"); st["ver"].append((v, False)); L.append(v)
        return L
    return []


def violated_all(lines, model, checked, release):
    out = []
    idx = {l: i for i, l in enumerate(lines)}
    for s, st in _st.items():
        for (msg, ctx, ph, a, raw) in st.get("sigs", []) + st.get("long", []):
            for prof, ans in (("checked", checked), ("wrapping", release)):
                if a in idx and raw in idx and ans[idx[a]] != ans[idx[raw]]:
                    out.append((idx[a], "%s build: %s: the API does not sign the FIPS 204 representative (mode byte / |ctx| / ctx / OID / digest) for ctx=%s ph=%s" % (prof, s, K.ctxs(ctx)[:20], ph)))
        for (v, same) in st.get("ver", []):
            for prof, ans in (("checked", checked), ("wrapping", release)):
                want = "ok true" if same else "ok false"
                if v in idx and ans[idx[v]] != want:
                    out.append((idx[v], "%s build: %s: verification under %s framing answered %s" % (prof, s, "the same" if same else "a different", ans[idx[v]])))
    for i, l in enumerate(lines):
        t = l.split()
        if t[0] == "@impl":
            t = t[1:]
        if "::SecretKey::" in t[0] and t[3] != "none" and len(K.unhx(t[3])) > 255:
            for prof, ans in (("checked", checked), ("wrapping", release)):
                if ans[i] != "ok none":
                    out.append((i, "%s build: signing with a %d-byte context returned %s" % (prof, len(K.unhx(t[3])), ans[i][:30])))
    return out


def nontrivial(line, model_ans):
    return True
