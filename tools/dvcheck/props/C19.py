"""C19 — vector and matrix operations are exact component-wise lifts."""
from .. import pyspec as S
ID = "C19"
Q = 8380417
KL = {"lvl2": (4, 4), "lvl3": (6, 5), "lvl5": (8, 7)}
RULE = ("for each of the three polyvec modules and each operation: input vectors with pairwise different, non-zero components "
        "(so a skipped, repeated or transposed component changes the answer); the same batch contains the polynomial-level "
        "call for every component, and the vector answer must be exactly the list of those answers (matrix product: the sum over j "
        "of the pointwise products, recomputed from the polynomial-level answers); decomposition is also checked against an "
        "independent HighBits/LowBits. distinct_nontrivial = distinct vector-level requests. Boundary-valued rows (0, +-1, domain ends, +-q, +-(q-1)/2) for every unary vector operation.")
EXPLANATION = ("Props/C19.lean: every vector operation of the model is the component-wise lift (length and per-index theorem), the "
               "matrix product is the row-wise accumulated sum, k_decompose returns (high, low). The tie checks each Rust loop against the "
               "polynomial-level functions of the same build.")
ASSUMPTIONS = []

_groups = []   # (vector line index, [component line indices], kind)
TWINS = []


def fmt(p):
    return ",".join(str(x) for x in p)


def V(v):
    return ";".join(fmt(p) for p in v)


def rpoly(rng, lo, hi):
    return [rng.randrange(lo, hi + 1) for _ in range(256)]


def requests(tier, rng):
    global _groups
    _groups = []
    del TWINS[:]
    L = []
    reps = 1 if tier == "quick" else 6
    def add(vline, comps, kind):
        vi = len(L); L.append(vline)
        ci = []
        for c in comps:
            ci.append(len(L)); L.append(c)
        _groups.append((vi, ci, kind))
    for lv, (k, l) in KL.items():
        g2 = S.P(lv).gamma2
        m = (Q - 1) // (2 * g2)
        for _ in range(reps):
            for (fn, n, pfn, lo, hi) in [
                ("l_reduce", l, "poly::reduce", -2**31, 2**31 - 2**22 - 1), ("k_reduce", k, "poly::reduce", -2**31, 2**31 - 2**22 - 1),
                ("k_caddq", k, "poly::caddq", -Q + 1, Q - 1), ("k_shiftl", k, "poly::shiftl", -2**17, 2**17),
                ("l_ntt", l, "poly::ntt", -Q + 1, Q - 1), ("k_ntt", k, "poly::ntt", -Q + 1, Q - 1),
                ("l_invntt_tomont", l, "poly::invntt_tomont", -Q + 1, Q - 1), ("k_invntt_tomont", k, "poly::invntt_tomont", -Q + 1, Q - 1),
                ("k_power2round", k, "poly::power2round", 0, Q - 1), ("k_decompose", k, "poly::%s::decompose" % lv, 0, Q - 1),
                ("k_pack_w1", k, "poly::%s::w1_pack" % lv, 0, m - 1)]:
                v = [rpoly(rng, lo, hi) for _ in range(n)]
                add("polyvec::%s::%s %s" % (lv, fn, V(v)), ["%s %s" % (pfn, fmt(p)) for p in v], fn)
                # boundary-valued rows: every coefficient is one of 0, +-1, the ends of the domain, +-q, q-1 (where allowed)
                sp = [x for x in (0, -1, 1, lo, hi, lo + 1, hi - 1, Q - 1, -Q + 1, Q, -Q, (Q - 1) // 2, -(Q - 1) // 2) if lo <= x <= hi]
                v = [[sp[(j + 3 * i) % len(sp)] for j in range(256)] for i in range(n)]
                v[rng.randrange(n)] = [0] * 256
                add("polyvec::%s::%s %s" % (lv, fn, V(v)), ["%s %s" % (pfn, fmt(p)) for p in v], fn)
                # rows that lie entirely inside the operation's own output range (reduce32: [-6283009, 6283007], caddq: [0, q),
                # ...) but not in the part of it where the operation is the identity: a "nothing to do for this row" shortcut
                md = [x for x in (2**22, -2**22, 2**22 + 1, -2**22 - 1, 6283007, -6283009, 5000000, -5000000, 4190208, -4190209, 0, 1, -1, 8191, 8192)
                      if lo <= x <= hi]
                if len(md) >= 4:
                    v = [[md[(j * 5 + i) % len(md)] for j in range(256)] for i in range(n)]
                    add("polyvec::%s::%s %s" % (lv, fn, V(v)), ["%s %s" % (pfn, fmt(p)) for p in v], fn)
            for (fn, n, pfn, lo, hi) in [("l_add", l, "poly::add_ip", -2**29, 2**29), ("k_add", k, "poly::add_ip", -2**29, 2**29),
                                          ("k_sub", k, "poly::sub_ip", -2**29, 2**29)]:
                w = [rpoly(rng, lo, hi) for _ in range(n)]; v = [rpoly(rng, lo, hi) for _ in range(n)]
                add("polyvec::%s::%s %s %s" % (lv, fn, V(w), V(v)), ["%s %s %s" % (pfn, fmt(a), fmt(b)) for a, b in zip(w, v)], fn)
            # the polynomial-level add / sub in their two forms (returning a new polynomial / in place) must agree
            for _r in range(2):
                a = rpoly(rng, -2**29, 2**29); b = rpoly(rng, -2**29, 2**29)
                if _r:
                    a = [(0, 1, -1, 2**30 - 1, -2**30)[j % 5] for j in range(256)]; b = [(0, -1, 1, 2**30, -2**30)[(j // 5) % 5] for j in range(256)]
                for op in ("add", "sub"):
                    x = "poly::%s %s %s" % (op, fmt(a), fmt(b)); y = "poly::%s_ip %s %s" % (op, fmt(a), fmt(b))
                    if x not in L:
                        L.append(x); L.append(y)
                        TWINS.append((x, y, "poly::%s (new polynomial) and poly::%s_ip (in place) must give the same coefficients" % (op, op)))
            for (fn, n) in [("l_pointwise_poly_montgomery", l), ("k_pointwise_poly_montgomery", k)]:
                a = rpoly(rng, -9 * Q + 1, 9 * Q - 1); v = [rpoly(rng, -9 * Q + 1, 9 * Q - 1) for _ in range(n)]
                add("polyvec::%s::%s %s %s" % (lv, fn, fmt(a), V(v)), ["poly::pointwise_montgomery %s %s" % (fmt(a), fmt(x)) for x in v], fn)
                # a zero component / a zero multiplier (outputs are pre-filled with junk by the harness)
                vz = list(v); vz[rng.randrange(n)] = [0] * 256
                add("polyvec::%s::%s %s %s" % (lv, fn, fmt(a), V(vz)), ["poly::pointwise_montgomery %s %s" % (fmt(a), fmt(x)) for x in vz], fn)
                add("polyvec::%s::%s %s %s" % (lv, fn, fmt([0] * 256), V(v)), ["poly::pointwise_montgomery %s %s" % (fmt([0] * 256), fmt(x)) for x in v], fn)
            # hints
            v0 = [rpoly(rng, -2 * g2 + 1, 2 * g2 - 1) for _ in range(k)]; v1 = [rpoly(rng, 0, m - 1) for _ in range(k)]
            for i in range(k):
                v0[i][rng.randrange(256)] = -g2; v0[i][rng.randrange(256)] = g2 + 1
            add("polyvec::%s::k_make_hint %s %s" % (lv, V(v0), V(v1)), ["poly::%s::make_hint %s %s" % (lv, fmt(a), fmt(b)) for a, b in zip(v0, v1)], "k_make_hint")
            a = [rpoly(rng, 0, Q - 1) for _ in range(k)]; h = [[rng.randrange(2) for _ in range(256)] for _ in range(k)]
            add("polyvec::%s::k_use_hint %s %s" % (lv, V(a), V(h)), ["poly::%s::use_hint %s %s" % (lv, fmt(x), fmt(y)) for x, y in zip(a, h)], "k_use_hint")
            # structured second operands: all-zero rows (every subset pattern for small k, else each single row and alternating),
            # a single non-zero position, all-one rows -- a loop that special-cases "nothing to do" rows is seen here
            pats = [[0] * k, [1] * k] + [[1 if j == i else 0 for j in range(k)] for i in range(k)] + [[0 if j == i else 1 for j in range(k)] for i in range(k)] + [[j % 2 for j in range(k)]]
            for pat in pats:
                h = [([0] * 256 if pat[i] == 0 else [1 if (j * 7 + i) % 16 == 0 else 0 for j in range(256)]) for i in range(k)]
                add("polyvec::%s::k_use_hint %s %s" % (lv, V(a), V(h)), ["poly::%s::use_hint %s %s" % (lv, fmt(x), fmt(y)) for x, y in zip(a, h)], "k_use_hint")
                z0 = [([0] * 256 if pat[i] == 0 else rpoly(rng, -2**20, 2**20)) for i in range(k)]
                w = [rpoly(rng, -2**20, 2**20) for _ in range(k)]
                add("polyvec::%s::k_add %s %s" % (lv, V(w), V(z0)), ["poly::add_ip %s %s" % (fmt(x), fmt(y)) for x, y in zip(w, z0)], "k_add")
                add("polyvec::%s::k_sub %s %s" % (lv, V(w), V(z0)), ["poly::sub_ip %s %s" % (fmt(x), fmt(y)) for x, y in zip(w, z0)], "k_sub")
            # the one place where hint creation reads the high part: a0 = -gamma2 gives a hint exactly when a1 != 0.
            # Rows with a0 = -gamma2 at several positions against high parts that are zero in some rows and non-zero in
            # others (every single row, every complement, alternating): a row paired with another row's high parts is seen
            for pat in pats:
                v0 = [[(-g2 if j % 16 == (3 * i) % 16 else (g2 if j % 16 == 7 else 0)) for j in range(256)] for i in range(k)]
                v1 = [([0] * 256 if pat[i] == 0 else [1 + (j + i) % (m - 1) for j in range(256)]) for i in range(k)]
                add("polyvec::%s::k_make_hint %s %s" % (lv, V(v0), V(v1)), ["poly::%s::make_hint %s %s" % (lv, fmt(x), fmt(y)) for x, y in zip(v0, v1)], "k_make_hint")
            # hint creation with exactly / just below / just above omega ones after each row
            om = S.P(lv).omega
            for upto in range(k):
                for tot in (om - 1, om, om + 1):
                    v0 = [[0] * 256 for _ in range(k)]; v1 = [[0] * 256 for _ in range(k)]
                    left = tot
                    for i in range(upto + 1):
                        c = left if i == upto else min(left, tot // (upto + 1))
                        for j in range(c):
                            v0[i][(j * 3) % 256] = g2 + 1
                        left -= c
                    for i in range(upto + 1, k):
                        v0[i][5] = g2 + 1; v0[i][77] = -g2 - 1
                    add("polyvec::%s::k_make_hint %s %s" % (lv, V(v0), V(v1)), ["poly::%s::make_hint %s %s" % (lv, fmt(x), fmt(y)) for x, y in zip(v0, v1)], "k_make_hint")
            # saturated rows: 255 / 256 hints in one row, in every row (counts that do not fit a byte)
            for row in range(k):
                for full in (255, 256):
                    v0 = [[0] * 256 for _ in range(k)]; v1 = [[0] * 256 for _ in range(k)]
                    for j in range(full):
                        v0[row][j] = g2 + 1 if j % 2 else -g2 - 1
                    for i in range(k):
                        if i != row:
                            v0[i][3] = g2 + 1
                    add("polyvec::%s::k_make_hint %s %s" % (lv, V(v0), V(v1)), ["poly::%s::make_hint %s %s" % (lv, fmt(x), fmt(y)) for x, y in zip(v0, v1)], "k_make_hint")
            v0 = [[g2 + 1] * 256 for _ in range(k)]; v1 = [[0] * 256 for _ in range(k)]
            add("polyvec::%s::k_make_hint %s %s" % (lv, V(v0), V(v1)), ["poly::%s::make_hint %s %s" % (lv, fmt(x), fmt(y)) for x, y in zip(v0, v1)], "k_make_hint")
            # matrix-vector product: rows and columns all different
            mat = [[rpoly(rng, 0, Q - 1) for _ in range(l)] for _ in range(k)]
            v = [rpoly(rng, -9 * Q + 1, 9 * Q - 1) for _ in range(l)]
            comps = ["poly::pointwise_montgomery %s %s" % (fmt(mat[i][j]), fmt(v[j])) for i in range(k) for j in range(l)]
            add("polyvec::%s::matrix_pointwise_montgomery %s %s" % (lv, "|".join(V(r) for r in mat), V(v)), comps, "matrix")
            u = [rpoly(rng, -9 * Q + 1, 9 * Q - 1) for _ in range(l)]
            add("polyvec::%s::l_pointwise_acc_montgomery %s %s" % (lv, V(u), V(v)),
                ["poly::pointwise_montgomery %s %s" % (fmt(a), fmt(b)) for a, b in zip(u, v)], "acc")
            # norm checks: spike in the last component only
            for fn, n in (("l_chknorm", l), ("k_chknorm", k)):
                b = 261888
                v = [rpoly(rng, -b + 1, b - 1) for _ in range(n)]
                v[n - 1][255] = b
                add("polyvec::%s::%s %s %d" % (lv, fn, V(v), b), ["poly::chknorm %s %d" % (fmt(p), b) for p in v], "chknorm")
    return L


def _ok(a):
    return a[3:] if a.startswith("ok ") else None


def violated_all(lines, model, checked, release):
    out = []
    for (vi, ci, kind) in _groups:
        for prof, ans in (("checked", checked), ("wrapping", release)):
            va = _ok(ans[vi]); cas = [_ok(ans[i]) for i in ci]
            if va is None or any(c is None for c in cas):
                out.append((vi, "%s build: %s panicked on in-range input" % (prof, lines[vi].split()[0])))
                break
            fn = lines[vi].split()[0]
            if kind in ("k_power2round", "k_decompose"):
                # vector: "<v1> <v0>" ; poly: "<a1> <a0>" in the order of the Rust out-parameters
                v1, v0 = va.split()
                p1 = [c.split()[0] for c in cas]; p0 = [c.split()[1] for c in cas]
                if kind == "k_decompose":
                    p1, p0 = p0, p1       # k_decompose swaps the two vectors after the per-polynomial loop
                    g2 = S.P(fn.split("::")[1]).gamma2
                    a = [[int(x) for x in p.split(",")] for p in lines[vi].split()[1].split(";")]
                    hi = ";".join(",".join(str(S.decompose(g2, x)[0]) for x in p) for p in a)
                    lo = ";".join(",".join(str(S.decompose(g2, x)[1]) for x in p) for p in a)
                    if v1 != hi or v0 != lo:
                        out.append((vi, "%s build: %s: first operand is not the high parts / second not the low parts" % (prof, fn)))
                        break
                want = ";".join(p1) + " " + ";".join(p0)
            elif kind == "k_make_hint":
                hs = [c.split()[0] for c in cas]; ns = [int(c.split()[1]) for c in cas]
                want = ";".join(hs) + " " + str(sum(ns))
            elif kind == "k_pack_w1":
                want = "".join(cas)
            elif kind == "matrix":
                k, l = KL[fn.split("::")[1]]
                rows = []
                for i in range(k):
                    acc = [0] * 256
                    for j in range(l):
                        acc = [x + int(y) for x, y in zip(acc, cas[i * l + j].split(","))]
                    rows.append(",".join(str(x) for x in acc))
                want = ";".join(rows)
            elif kind == "acc":
                acc = [0] * 256
                for c in cas:
                    acc = [x + int(y) for x, y in zip(acc, c.split(","))]
                want = ",".join(str(x) for x in acc)
            elif kind == "chknorm":
                want = "1" if any(c == "1" for c in cas) else "0"
            else:
                want = ";".join(cas)
            if va != want:
                out.append((vi, "%s build: %s is not the component-wise lift of the polynomial operation" % (prof, fn)))
                break
    return out


def nontrivial(line, model_ans):
    return line.startswith("polyvec::") and model_ans.startswith("ok")
