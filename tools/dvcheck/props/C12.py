"""C12 — SHAKE-128/256 equal FIPS 202 for every input and every call pattern."""
import hashlib
ID = "C12"
SPEC_ORACLE = ['shake']   # specification definitions used by Props/C12.lean are compared with hashlib / pyspec on every run
R = {True: 136, False: 168}
RULE = ("scripts of calls (absorb / finalize / squeeze / squeezeblocks / absorb_once / one-shot / stream_init) on one state; "
        "every input length 0..3*rate+1, 2-splits of the input and of the output, requests longer than a block, mixed "
        "squeeze/squeezeblocks at block boundaries. Each script is compared with the model AND with python hashlib "
        "(independent oracle). distinct_nontrivial = distinct scripts with non-empty output. Re-initialisation at every kind of point (after whole-block absorbs, mid-block, after finalize, after squeezes), repeated and in random multi-phase scripts, both rates.")
EXPLANATION = ("Props/C12.lean: sponge theorems generic in the permutation (absorb of a concatenation = absorbing the pieces, "
               "squeeze of n+m bytes = squeeze n then m, one-shot = incremental). The model's permutation is tied to the code and "
               "to hashlib on every run.")
ASSUMPTIONS = ["python hashlib (OpenSSL) SHAKE as the external FIPS 202 oracle"]


def hexs(b):
    return b.hex() if b else "-"


def data(rng, n):
    return bytes(rng.randrange(256) for _ in range(n))


def requests(tier, rng):
    L = []
    thorough = tier == "thorough"
    # one-shot, every input length
    for n in range(0, 3 * 136 + 2):
        d = data(rng, n)
        for outlen in ((32, 64, 136, 137, 200, 272, 300) if thorough or n % 7 == 0 or n in (135, 136, 137, 271, 272, 273) else (64,)):
            L.append("fips202::shake256 %d %s" % (outlen, hexs(d)))
    # incremental, every input length, one absorb
    for is256 in (True, False):
        r = R[is256]
        nm = "shake256_script" if is256 else "shake128_script"
        for n in range(0, 3 * r + 2):
            d = data(rng, n)
            out = "s:64" if is256 else "b:1"
            L.append("fips202::%s a:%d,f,%s %s" % (nm, n, out, hexs(d)))
        # all 2-splits of the input
        for n in (range(0, 2 * r + 2) if thorough else list(range(0, 12)) + [r - 1, r, r + 1, 2 * r - 1, 2 * r, 2 * r + 1]):
            d = data(rng, n)
            for i in (range(0, n + 1) if thorough or n < 12 else sorted({0, 1, n // 2, r - 1, r, r + 1, n - 1, n} & set(range(n + 1)))):
                out = "s:40" if is256 else "b:1"
                L.append("fips202::%s a:%d,a:%d,f,%s %s" % (nm, i, n - i, out, hexs(d)))
        # random multi-splits
        for _ in range(300 if thorough else 60):
            n = rng.randrange(0, 4 * r)
            d = data(rng, n)
            cuts = sorted(rng.randrange(0, n + 1) for _ in range(rng.randrange(1, 6)))
            parts, prev = [], 0
            for c in cuts + [n]:
                parts.append(c - prev); prev = c
            out = "s:%d" % rng.randrange(1, 300) if is256 else "b:%d" % rng.randrange(1, 4)
            L.append("fips202::%s %s,f,%s %s" % (nm, ",".join("a:%d" % p for p in parts), out, hexs(d)))
    # output partitions (SHAKE-256 squeeze): all 2-splits of up to 3 blocks, single long requests
    d = b"abc"
    T = 3 * 136
    for i in (range(0, T + 1) if thorough else list(range(0, T + 1, 5)) + [135, 136, 137, 271, 272, 273]):
        L.append("fips202::shake256_script a:3,f,s:%d,s:%d %s" % (i, T - i, hexs(d)))
    for n in (1, 135, 136, 137, 200, 271, 272, 273, 400, 408, 409, 1000):
        L.append("fips202::shake256_script a:3,f,s:%d %s" % (n, hexs(d)))
        L.append("fips202::shake256_script a:3,f,s:7,s:%d,s:3 %s" % (n, hexs(d)))
    for _ in range(200 if thorough else 40):
        n = rng.randrange(0, 300)
        dd = data(rng, n)
        k = rng.randrange(1, 7)
        L.append("fips202::shake256_script a:%d,f,%s %s" % (n, ",".join("s:%d" % rng.randrange(0, 320) for _ in range(k)), hexs(dd)))
    # squeezeblocks under its precondition (position at a block boundary), mixed with squeeze
    for scr in ("b:1", "b:3", "b:1,b:2", "s:136,b:1", "b:1,s:136,b:1", "b:2,s:10,s:126,b:1,s:5", "s:272,b:1,s:1", "b:1,s:300"):
        for n in (0, 5, 135, 136, 137):
            L.append("fips202::shake256_script a:%d,f,%s %s" % (n, scr, hexs(data(rng, n))))
    for scr in ("b:1", "b:5", "b:1,b:1,b:3"):
        for n in (0, 34, 167, 168, 169):
            L.append("fips202::shake128_script a:%d,f,%s %s" % (n, scr, hexs(data(rng, n))))
    # absorb_once + squeeze / squeezeblocks
    for n in list(range(0, 20)) + [135, 136, 137, 271, 272, 273, 500]:
        L.append("fips202::shake256_script o:%d,s:200 %s" % (n, hexs(data(rng, n))))
        L.append("fips202::shake256_script o:%d,b:2,s:9 %s" % (n, hexs(data(rng, n))))
    # state reuse after init
    L.append("fips202::shake256_script a:10,f,s:20,i,a:3,f,s:64 %s" % hexs(data(rng, 10) + b"abc"))
    # re-initialisation at every kind of point: after whole-block absorbs (position 0), mid-block, after finalize, after
    # squeezes that end inside / at the end of a block; the second phase must be a fresh FIPS 202 computation
    for is256, nm, r in ((True, "shake256_script", 136), (False, "shake128_script", 168)):
        out = "s:64" if is256 else "b:1"
        for pre in ("a:%d" % r, "a:%d" % (2 * r), "a:%d,a:%d" % (r - 36, 36), "a:%d" % (r - 1), "a:%d" % (r + 1), "a:0", "a:5,f",
                    "a:%d,f" % r, "a:5,f,%s" % out, "a:%d,f,%s" % (r, out)) + (("a:5,f,s:136", "a:5,f,s:135", "a:5,f,s:137", "a:136,f,s:272") if is256 else ("a:5,f,b:2",)):
            n1 = sum(int(o[2:]) for o in pre.split(",") if o.startswith("a:"))
            for post in ("a:3,f,%s" % out, "f,%s" % out, "a:%d,f,%s" % (r, out), "a:%d,a:1,f,%s" % (r - 1, out)):
                n2 = sum(int(o[2:]) for o in post.split(",") if o.startswith("a:"))
                L.append("fips202::%s %s,i,%s %s" % (nm, pre, post, hexs(data(rng, n1 + n2))))
            L.append("fips202::%s %s,i,i,a:2,f,%s,i,a:%d,i,a:1,f,%s %s" % (nm, pre, out, r, out, hexs(data(rng, n1 + 3 + r))))
    for _ in range(200 if tier == "thorough" else 40):
        is256 = rng.random() < 0.6
        r = 136 if is256 else 168
        ops = []; tot = 0
        for ph in range(rng.randrange(2, 5)):
            if ph:
                ops.append("i")
            for _a in range(rng.randrange(0, 4)):
                k = rng.choice([0, 1, r - 1, r, r + 1, 2 * r, rng.randrange(0, 3 * r)])
                if rng.random() < 0.3 and tot % r:
                    k = r - tot % r
                ops.append("a:%d" % k); tot += k
            if rng.random() < 0.7 or ph == 0:
                ops.append("f")
                if is256:
                    ops += ["s:%d" % rng.choice([0, 1, 135, 136, 137, rng.randrange(0, 300)]) for _s in range(rng.randrange(0, 3))]
                else:
                    ops += ["b:%d" % rng.randrange(1, 3) for _s in range(rng.randrange(0, 2))]
            tot = 0 if True else tot
        ops += ["i", "a:4", "f", "s:48" if is256 else "b:1"]
        n = sum(int(o[2:]) for o in ops if o.startswith("a:"))
        L.append("fips202::%s %s %s" % ("shake256_script" if is256 else "shake128_script", ",".join(ops), hexs(data(rng, n))))
    # the public byte-order helpers load64 / store64 (little endian, exactly 8 bytes of a possibly longer buffer)
    for u in [0, 1, 0xFF, 0x100, 0x0102030405060708, 2**63, 2**64 - 1, 2**32, 2**32 - 1] + [rng.getrandbits(64) for _ in range(20)]:
        b = u.to_bytes(8, "little")
        L.append("@impl fips202::load64 %s" % hexs(b))
        L.append("@impl fips202::load64 %s" % hexs(b + bytes([0xEE] * 5)))
        L.append("@impl fips202::store64 %d 0" % u)
        L.append("@impl fips202::store64 %d 9" % u)
    # stream init functions (seed || nonce LE)
    for nonce in (0, 1, 255, 256, 257, 0x1234, 65535):
        L.append("fips202::shake128_stream_init %s %d 2" % (hexs(data(rng, 32)), nonce))
        L.append("fips202::shake256_stream_init %s %d 2" % (hexs(data(rng, 64)), nonce))
    # the permutation itself
    for _ in range(50):
        L.append("fips202::keccakf1600_statepermute %s" % ",".join(str(rng.getrandbits(64)) for _ in range(25)))
    L.append("fips202::keccakf1600_statepermute %s" % ",".join(["0"] * 25))
    return L


def expected(line):
    """FIPS 202 answer from hashlib for well-formed requests (None = no oracle for this request)"""
    if line.startswith("@impl "):
        return None
    t = line.split()
    fn = t[0].split("::")[1]
    if fn == "shake256":
        d = bytes.fromhex(t[2]) if t[2] != "-" else b""
        return hashlib.shake_256(d).digest(int(t[1]))
    if fn in ("shake128_stream_init", "shake256_stream_init"):
        is256 = fn.startswith("shake256")
        seed = bytes.fromhex(t[1]); nonce = int(t[2]); nb = int(t[3])
        need = 64 if is256 else 32
        d = seed[:need] + bytes([nonce & 255, nonce >> 8])
        h = hashlib.shake_256(d) if is256 else hashlib.shake_128(d)
        return h.digest(nb * R[is256])
    if fn in ("shake256_script", "shake128_script"):
        is256 = fn.startswith("shake256")
        r = R[is256]
        inp = bytes.fromhex(t[2]) if t[2] != "-" else b""
        out = b""
        absorbed = b""; pos = 0; outpos = 0; final = False
        for op in t[1].split(","):
            p = op.split(":")
            if p[0] == "i":
                out_so_far = out
                absorbed = b""; outpos = 0; final = False
                base = len(out)
            elif p[0] in ("a", "o"):
                if final:
                    return None
                n = int(p[1]); absorbed += inp[pos:pos + n]; pos += n
                if p[0] == "o":
                    final = True
            elif p[0] == "f":
                final = True
            elif p[0] in ("s", "b"):
                if not final:
                    return None
                n = int(p[1]) * (r if p[0] == "b" else 1)
                if p[0] == "b" and outpos % r != 0:
                    return None          # precondition of squeezeblocks violated: no oracle
                h = hashlib.shake_256(absorbed) if is256 else hashlib.shake_128(absorbed)
                out += h.digest(outpos + n)[outpos:]
                outpos += n
        return out
    return None


def _bytes_helpers(line, checked, release):
    t = line.replace("@impl ", "").split()
    if t[0] == "fips202::load64":
        want = "ok %d" % int.from_bytes(bytes.fromhex(t[1])[:8], "little")
    elif t[0] == "fips202::store64":
        want = "ok " + int(t[1]).to_bytes(8, "little").hex()
    else:
        return None
    for prof, ans in (("checked", checked), ("wrapping", release)):
        if ans != want:
            return "%s build: %s %s answers %s, little-endian conversion gives %s" % (prof, t[0], t[1][:20], ans[:40], want)
    return None


def violated(line, checked, release):
    if "fips202::load64" in line or "fips202::store64" in line:
        return _bytes_helpers(line, checked, release)
    e = expected(line)
    if e is None:
        return None
    want = "ok " + hexs(e)
    for prof, ans in (("checked", checked), ("wrapping", release)):
        if ans != want:
            return "%s build: %s differs from FIPS 202 (hashlib): got %s.., expected %s.." % (prof, " ".join(line.split()[:2])[:80], ans[:60], want[:60])
    return None


def finding_key(line):
    t = line.split()
    if "script" in t[0]:
        ops = t[1].split(",")
        if any(o.startswith("s:") and int(o[2:]) > 0 for o in ops):
            return "squeeze-request-crossing-block-boundary"
    if t[0].endswith("::shake256") and int(t[1]) % 136 > 0:
        pass
    return t[0]


def nontrivial(line, model_ans):
    return model_ans.startswith("ok ") and model_ans != "ok -"


def search(tier, rng):
    return ["fips202::shake256_script a:3,f,s:200 616263", "fips202::shake256 200 616263", "fips202::shake256_script a:3,f,b:2 616263",
            "fips202::shake128_script a:3,f,b:2 616263"]
