"""C09 — randomness discipline: fresh CSPRNG bytes, right amount, only where specified."""
from .. import scheme as K
from .. import pyspec as S
ID = "C09"
RULE = ("with the RNG tap (hook) and the real thread_rng: every operation kind is run several times and the logged requests "
        "(count, lengths, bytes) are compared with the model's prediction (32 bytes: unseeded keygen, hedged ML-DSA sign; 64 bytes: "
        "randomized Dilithium sign; none: seeded keygen, deterministic sign, verify); the output must be the model's output on "
        "exactly the logged bytes (second stage, scripted tape); logged draws of repeated calls must be pairwise distinct and "
        "outputs of repeated randomized calls pairwise distinct, deterministic ones identical. distinct_nontrivial = distinct requests. Output buffers are pre-filled differently on every call; no-draw signatures are replayed against the model.")
EXPLANATION = ("Props/C09.lean: the library as a machine over an RNG tape: per-operation amounts, consumption in call order over any "
               "call sequence, output = specification's function of exactly the drawn bytes. That thread_rng is an OS-seeded CSPRNG is "
               "rand's contract (trusted).")
ASSUMPTIONS = ["rand::thread_rng is an OS-seeded CSPRNG (trusted); the tap observes requests on the calling thread"]
_st = {"logs": []}
IMPL_SHARDS = 1     # all RNG-logged operations run one after the other on ONE thread of ONE process: mixed call sequences


def requests(tier, rng):
    return [K.keygen(s, bytes(rng.randrange(256) for _ in range(32))) for s in K.SETS]


def expect_len(line):
    t = line.split()
    fn = t[1]
    s = fn.split("::")[1] if fn.startswith("sign::") else [k for k, v in K.API.items() if v == fn.split("::")[0]][0]
    p = S.P(s)
    if fn.endswith("::keypair") or fn.endswith("Keypair::generate"):
        return [32] if t[2] == "none" else []
    if fn.endswith("::signature"):
        return ([32] if p.mldsa else [64]) if t[4] == "1" else []
    if fn.endswith("SecretKey::sign") or fn.endswith("SecretKey::prehash_sign"):
        return [32] if (p.mldsa and t[5] == "1") else []
    return []


def followup(stage, lines, model, checked, release, tier, rng):
    R = lambda n: bytes(rng.randrange(256) for _ in range(n))
    L = []
    reps = 3 if tier == "quick" else 10
    if stage == 1:
        for ln, ans in zip(lines, checked):
            if not ans.startswith("ok "):
                continue
            s = ln.split("::")[1]
            p = S.P(s)
            pk, sk = K.keys_of(ans)
            msg = R(30)
            ops = ["sign::%s::keypair none real" % s, "%s::Keypair::generate none real" % K.API[s],
                   "sign::%s::keypair %s real" % (s, K.hx(R(32))),
                   "sign::%s::signature %s %s 1 real" % (s, K.hx(msg), sk), "sign::%s::signature %s %s 0 real" % (s, K.hx(msg), sk),
                   "sign::%s::verify %s %s %s" % (s, "00" * p.sig, K.hx(msg), pk)]
            if p.mldsa:
                ops.append("%s::SecretKey::sign %s %s none 1 real" % (K.API[s], sk, K.hx(msg)))
                ops.append("%s::SecretKey::sign %s %s none 0 real" % (K.API[s], sk, K.hx(msg)))
                t = K.api_prehash_sign(s, sk, msg, b"c", 1, "sha512").split(" "); t[6] = "real"
                ops.append(" ".join(t))
            else:
                ops.append("%s::SecretKey::sign %s %s none 0 real" % (K.API[s], sk, K.hx(msg)))
            # deterministic signing through long rejection streaks (a key with an extreme t0 rejects most iterations):
            # still no draw, and the same signature every time
            csk = K.craft_sk(s, sk, p.k, (0.7 if p.gamma2 == (S.Q - 1) // 88 else 1.0), rng)
            _st.setdefault("crafted", []).append(csk)
            for _ in range(2):
                ops.append("sign::%s::signature %s %s 0 real" % (s, K.hx(R(8)), csk))
            ops.append("sign::%s::keypair %s real" % (s, "00" * 32))      # boundary seeds: still no draw
            ops.append("sign::%s::keypair %s real" % (s, "ff" * 32))
            for op in ops:
                for _ in range(reps):
                    L.append("@impl rnglog " + op)
        rng.shuffle(L)      # a mixed sequence of randomized and deterministic operations of all sets
        # freshness across threads: the same randomized request on 300 newly spawned threads (more than any 8-bit thread
        # id or per-thread generator table would distinguish) must give 300 different keys / signatures
        nthr = 300 if tier == "quick" else 1200
        for ln, ans in zip(lines, checked):
            if not ans.startswith("ok "):
                continue
            s = ln.split("::")[1]
            pk, sk = K.keys_of(ans)
            L.append("@impl freshthreads %d sign::%s::keypair none real" % (nthr, s))
            L.append("@impl freshthreads %d sign::%s::signature %s %s 1 real" % (nthr, s, K.hx(b"fresh"), sk))
        return L
    if stage == 2:
        seen2 = set()
        # replay each logged draw as a scripted tape: the model (and the code) must reproduce the logged output
        for ln, ans in zip(lines, checked):
            if not ln.startswith("@impl rnglog ") or not ans.startswith("ok "):
                continue
            head, out = ans.split(" | ", 1)
            h = head.split()
            inner = ln[len("@impl rnglog "):]
            if h[1] == "0":
                # no draw: the output must be the model's (= the specification's) function of the arguments alone
                t = inner.split(" ")
                if "real" in t and ("::signature" in t[0] or "::SecretKey::" in t[0]):
                    t[t.index("real")] = "-"
                    q = " ".join(t)
                    if any(c in inner for c in _st.get("crafted", [])):
                        q = "@impl " + q        # long rejection streaks: too slow for the model, the code must still repeat itself
                    if q not in seen2:
                        seen2.add(q); _st["logs"].append((q, out)); L.append(q)
                continue
            t = inner.split(" ")
            pos = [i for i, x in enumerate(t) if x == "real"][0]
            t[pos] = h[3]
            _st["logs"].append((" ".join(t), out))
            L.append(" ".join(t))
        return L
    return []


def violated_all(lines, model, checked, release):
    out = []
    groups = {}
    for i, l in enumerate(lines):
        if not l.startswith("@impl rnglog "):
            continue
        for prof, ans in (("checked", checked), ("wrapping", release)):
            a = ans[i]
            if not a.startswith("ok "):
                out.append((i, "%s build: %s" % (prof, a[:60]))); continue
            head, res = a.split(" | ", 1)
            h = head.split()
            lens = [] if h[2] == "-" else [int(x) for x in h[2].split(",")]
            want = expect_len(l.replace("@impl ", ""))
            if lens != want:
                out.append((i, "%s build: %s requested RNG bytes %s, the specification prescribes %s" % (prof, l.split()[2], lens, want)))
            if prof == "checked":
                groups.setdefault(l, []).append((h[3], res))
    for i, l in enumerate(lines):
        if l.startswith("@impl freshthreads "):
            n = l.split()[2]
            for prof, ans in (("checked", checked), ("wrapping", release)):
                if ans[i] != "ok n=%s distinct=%s faults=0" % (n, n):
                    out.append((i, "%s build: %s on %s fresh threads: %s (every call must draw fresh randomness)" % (prof, l.split()[3], n, ans[i][:60])))
    for l, rs in groups.items():
        draws = [d for d, _ in rs]
        outs = [o for _, o in rs]
        if draws[0] != "-":
            if len(set(draws)) != len(draws):
                out.append((lines.index(l), "repeated calls of %s drew identical RNG bytes" % l.split()[2]))
            if len(set(outs)) != len(outs):
                out.append((lines.index(l), "repeated randomized calls of %s returned identical outputs" % l.split()[2]))
            if any(d == "00" * (len(d) // 2) for d in draws):
                out.append((lines.index(l), "%s drew all-zero bytes" % l.split()[2]))
        else:
            if len(set(outs)) != 1:
                out.append((lines.index(l), "repeated deterministic calls of %s differ" % l.split()[2]))
    # freshness across the whole call sequence of the process: no two draws share a 12-byte window
    seen = {}
    for i, l in enumerate(lines):
        if l.startswith("@impl rnglog ") and checked[i].startswith("ok "):
            h = checked[i].split(" | ", 1)[0].split()
            if h[3] != "-":
                b = bytes.fromhex(h[3])
                for k in range(0, len(b) - 11):
                    w = b[k:k + 12]
                    if w in seen and seen[w] != i:
                        out.append((i, "RNG bytes served to %s repeat bytes served to an earlier call (%s) in the same sequence" % (l.split()[2], lines[seen[w]].split()[2])))
                        break
                    seen[w] = i
    idx = {l: i for i, l in enumerate(lines)}
    for (req, res) in _st["logs"]:
        if req in idx and checked[idx[req]] != res:
            out.append((idx[req], "replaying the logged RNG bytes as a script does not reproduce the output of %s" % req.split()[0]))
    return out


def nontrivial(line, model_ans):
    return True
