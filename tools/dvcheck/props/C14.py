"""C14 — modular reduction kernels on their whole documented domain."""
ID = "C14"
Q = 8380417
I32MIN, I32MAX = -2**31, 2**31 - 1
RULE = ("sweeps = contiguous input ranges compared by per-chunk checksum (bisected on mismatch); single requests = boundary "
        "values. distinct_nontrivial counts distinct request lines (a sweep line counts once) whose model answer is `ok`; "
        "evaluations counts every input value inside the sweeps.")
EXPLANATION = ("Theorems (Props/C14.lean) settle the three kernels for every input of the documented domains; the tie runs the "
               "model and the implementation (checked and wrapping builds) on the same inputs: reduce32/caddq exhaustively over "
               "all 2^32 inputs in the thorough tier, stratified + every 2^23 boundary in quick; montgomery_reduce on domain "
               "edges, extreme products, low-word patterns and random ranges, in and out of the domain.")
TRUSTED = []
ASSUMPTIONS = ["the harness calls reduce::{montgomery_reduce,reduce32,caddq} in-process; i32 arguments outside i32 are not representable in Rust and are not generated"]


def exhaustive(tier):
    return tier == "thorough"


def weight(line):
    t = line.split()
    if t[0] == "sweep":
        return int(t[3]) - int(t[2])
    return 1


def requests(tier, rng):
    L = []
    if tier == "thorough":
        step = 2**26
        for fn in ("reduce::reduce32", "reduce::caddq"):
            for lo in range(I32MIN, I32MAX + 1, step):
                L.append("sweep %s %d %d %d" % (fn, lo, min(lo + step, I32MAX + 1), 2**20))
    else:
        for fn in ("reduce::reduce32", "reduce::caddq"):
            # every multiple of 2^23 (where the rounding quotient changes) +- 4096, and the i32 edges
            for m in range(I32MIN, I32MAX + 2, 2**23):
                lo, hi = max(I32MIN, m - 4096), min(I32MAX + 1, m + 4096)
                L.append("sweep %s %d %d %d" % (fn, lo, hi, 8192))
            # the documented upper bound of reduce32 and +-q for caddq
            for c in (2**31 - 2**22 - 1, Q, -Q, 0):
                L.append("sweep %s %d %d %d" % (fn, max(I32MIN, c - 5000), min(I32MAX + 1, c + 5000), 10000))
            # stratified: 4096 windows of 2048 values
            for k in range(4096):
                base = I32MIN + k * 2**20 + rng.randrange(0, 2**20 - 2048)
                L.append("sweep %s %d %d %d" % (fn, base, base + 2048, 2048))
    # montgomery_reduce (i64)
    B = 2**31 * Q
    fn = "reduce::montgomery_reduce"
    for s in (1, -1):
        for d in range(-3, 4):
            L.append("%s %d" % (fn, s * B + d))
        L.append("sweep %s %d %d %d" % (fn, s * B - 3000, s * B + 3000, 6000))
    L.append("sweep %s %d %d %d" % (fn, -70000, 70000, 140000))
    ext = [2**31 - 1, -2**31, 4190208, -4190208, Q - 1, 1 - Q, 9 * Q, -9 * Q, 2**31 - 2**22 - 1, 6283009, -6283009, 41978, 1, -1]
    for x in ext:
        for y in ext:
            L.append("%s %d" % (fn, x * y))
    for lowpat in (0, 1, 2**31, 2**32 - 1, 2**31 - 1, 2**31 + 1):
        for _ in range(40):
            hi = rng.randrange(-B // 2**32, B // 2**32)
            L.append("%s %d" % (fn, hi * 2**32 + lowpat))
    for i in range(1, 55):      # windows around +-2^i inside the domain
        for sg in (1, -1):
            c = sg * 2**i
            if abs(c) + 300 < B:
                L.append("sweep %s %d %d %d" % (fn, c - 300, c + 300, 600))
    nwin = 2000 if tier == "quick" else 100000
    for _ in range(nwin):
        base = rng.randrange(-B + 1, B - 1000)
        L.append("sweep %s %d %d %d" % (fn, base, base + 1000, 1000))
    for _ in range(300 if tier == "quick" else 3000):   # anywhere in i64: the model says which of these overflow
        base = rng.randrange(-2**63, 2**63 - 1000)
        L.append("sweep %s %d %d %d" % (fn, base, base + 500, 500))
    for v in (2**63 - 1, -2**63, 2**63 - 2**32, -2**63 + 2**32):
        L.append("%s %d" % (fn, v))
    return L


def nontrivial(line, model_ans):
    return model_ans.startswith("ok")


def _one(ans):
    if not ans.startswith("ok "):
        return None
    return [int(x) for x in ans[3:].split(",")]


def violated(line, checked, release):
    """the property itself, evaluated on the implementation's answers (no model involved)"""
    t = line.split()
    if t[0] == "sweep" or len(t) != 2:
        return None
    fn, a = t[0], int(t[1])
    for prof, ans in (("checked", checked), ("wrapping", release)):
        r = _one(ans)
        if fn == "reduce::montgomery_reduce" and abs(a) < 2**31 * Q:
            if r is None:
                return "%s build: montgomery_reduce(%d) panics inside the documented domain" % (prof, a)
            if (r[0] * 2**32 - a) % Q != 0 or abs(r[0]) >= Q:
                return "%s build: montgomery_reduce(%d) = %d is not a*2^-32 mod q with |r| < q" % (prof, a, r[0])
        if fn == "reduce::reduce32" and I32MIN <= a <= 2**31 - 2**22 - 1:
            if r is None:
                return "%s build: reduce32(%d) panics inside the documented domain" % (prof, a)
            if (r[0] - a) % Q != 0 or abs(r[0]) > 6283009:
                return "%s build: reduce32(%d) = %d is not congruent to a with |r| <= 6283009" % (prof, a, r[0])
        if fn == "reduce::caddq" and -Q < a < Q:
            if r is None:
                return "%s build: caddq(%d) panics" % (prof, a)
            if not (0 <= r[0] < Q) or (r[0] - a) % Q != 0:
                return "%s build: caddq(%d) = %d is not the representative in [0,q)" % (prof, a, r[0])
    return None


def search(tier, rng):
    """inputs tried when a proof obligation or the correspondence broke"""
    B = 2**31 * Q
    L = []
    for a in list(range(-40, 41)) + [23, Q, -Q, B - 1, 1 - B, 2**32, -2**32, 2**32 + 1, 12345678901234]:
        L.append("reduce::montgomery_reduce %d" % a)
    for _ in range(400):
        L.append("reduce::montgomery_reduce %d" % rng.randrange(-B + 1, B))
    for a in list(range(-20, 21)) + [Q, -Q, Q - 1, 1 - Q, 2**31 - 2**22 - 1, I32MIN, 2**22, 2**23, -2**23, 6283009]:
        L.append("reduce::reduce32 %d" % a)
        if -Q < a < Q:
            L.append("reduce::caddq %d" % a)
    for _ in range(400):
        L.append("reduce::reduce32 %d" % rng.randrange(I32MIN, 2**31 - 2**22))
        L.append("reduce::caddq %d" % rng.randrange(1 - Q, Q))
    return L
