"""C02 — any alteration of signature, message, context, mode or key is rejected."""
from .. import scheme as K
from .. import pyspec as S
ID = "C02"
RULE = ("for valid (pk, message, signature) triples of every set: EVERY single-bit flip of the signature (exhaustive per "
        "signature), every truncation and extensions by 1..8 bytes, every single-bit flip / proper prefix / one-byte extension of "
        "the message -- counted inside the harness on the implementation (both builds), which must accept none; verification "
        "under another key (other seed, sibling scheme of the same sizes), other context / mode / hash; a sample of the "
        "alterations is also compared with the model. distinct_nontrivial = distinct scan and verify requests; evaluations adds "
        "the verify calls made inside the scans. API level: no-context / empty-context signatures of short messages, message extended by zero bytes (across 62/64/136) or with trailing zeros removed. An honest signature with an empty hint row after a non-empty one is searched on the implementation (scan::findsigempty) and altered exhaustively, incl. every lower value of that row's counter.")
EXPLANATION = ("Props/C02.lean: length gate; message / context / mode / hash / key binding as explicit SHAKE-256 collisions. Rejection "
               "of a different (c~, z, h) for the same message is strong unforgeability, not provable: sig_bitflip_partial -- covered by "
               "the exhaustive flip scan only.")
ASSUMPTIONS = ["signature bit flips: exhaustive observation per sampled signature, not a theorem (SUF-CMA is a computational assumption)"]
_st = {"trip": [], "calls": 0}


def exhaustive(tier):
    return False


def requests(tier, rng):
    L = []
    for s in K.SETS:
        L.append(K.keygen(s, bytes(rng.randrange(256) for _ in range(32))))
        L.append(K.keygen(s, bytes(rng.randrange(256) for _ in range(32))))
    return L


def followup(stage, lines, model, checked, release, tier, rng):
    R = lambda n: bytes(rng.randrange(256) for _ in range(n))
    L = []
    if stage == 1:
        keys = {}
        for ln, ans in zip(lines, checked):
            if ans.startswith("ok "):
                keys.setdefault(ln.split("::")[1], []).append(K.keys_of(ans))
        _st["keys"] = keys
        for s, ks in keys.items():
            pk, sk = ks[0]
            for n in ((40,) if tier == "quick" else (0, 40, 200)):
                msg = R(n)
                r = K.sign_raw(s, msg, sk, 0)
                _st["trip"].append(dict(set=s, msg=msg, pk=pk, req=r))
                L.append(r)
            # an honest signature with an empty hint row after a non-empty one (searched on the implementation): its
            # alterations include lowering the counter of the empty row, which leaves the decoded hint vector unchanged
            L.append("@impl scan::findsigempty %s %s %d" % (s, sk, 1500 if tier == "quick" else 8000))
            _st.setdefault("pk_of", {})[s] = pk
            if S.P(s).mldsa:
                # API level: context / mode / hash alterations, incl. moving the boundary between context and message
                ctx, msg = b"payments/v1:", b"pay 10 to bob"
                for ph in (None, "sha256"):
                    a = K.api_sign(s, sk, msg, ctx) if ph is None else K.api_prehash_sign(s, sk, msg, ctx, 0, ph)
                    _st.setdefault("api", []).append(dict(set=s, ctx=ctx, msg=msg, ph=ph, pk=pk, sk=sk, req=a))
                    L.append(a)
                # no context / empty context, short messages, a message that ends in zero bytes: the framing of the
                # message (0 || |ctx| || ctx || M) is the only thing between M and M || 00
                for (c2, m2) in ((None, b"pay 10 to bob"), (None, b"pay 10 to bob\x00\x00"), (b"", b"x\x00"), (None, b""), (None, R(61) + b"\x00")):
                    a = K.api_sign(s, sk, m2, c2)
                    _st.setdefault("api", []).append(dict(set=s, ctx=c2, msg=m2, ph=None, pk=pk, sk=sk, req=a))
                    L.append(a)
            else:
                msg = b"pay 10 to bob"
                a = K.api_sign(s, sk, msg)
                _st.setdefault("api", []).append(dict(set=s, ctx=None, msg=msg, ph=None, pk=pk, sk=sk, req=a, dil=True))
                L.append(a)
        return L
    if stage == 2:
        idx = {l: i for i, l in enumerate(lines)}
        for ln, c in zip(list(lines), list(checked)):
            if ln.startswith("@impl scan::findsigempty ") and c.startswith("ok ") and c != "ok none":
                s = ln.split()[2]; tt = c.split()
                pk = _st["pk_of"][s]
                L.append("@impl scan::sigflips %s %s %s %s" % (s, tt[2], tt[1], pk))
                p = S.P(s)
                sigb = bytearray(bytes.fromhex(tt[2])); row = int(tt[3]); hoff = p.sig - p.omega - p.k
                e2 = dict(set=s, msg=K.unhx(tt[1]), pk=pk, req=ln, neg=[])
                for v in range(sigb[hoff + p.omega + row]):
                    w = bytearray(sigb); w[hoff + p.omega + row] = v
                    e2["neg"].append(K.verify_raw(s, w.hex(), e2["msg"], pk))
                e2["pos"] = K.verify_raw(s, tt[2], e2["msg"], pk)
                _st["trip"].append(e2); L.extend(e2["neg"][-3:] + e2["neg"][:1]); e2["neg"] = e2["neg"][-3:] + e2["neg"][:1]; L.append(e2["pos"])
        for e in _st["trip"]:
            if "sig" not in e and e["req"].startswith("@impl scan::findsigempty"):
                continue
            sig = K.sig_of(checked[idx[e["req"]]])
            if sig is None:
                continue
            e["sig"] = sig
            s, msg, pk = e["set"], e["msg"], e["pk"]
            L.append("@impl scan::sigflips %s %s %s %s" % (s, sig, K.hx(msg), pk))
            L.append("@impl scan::siglens %s %s %s %s" % (s, sig, K.hx(msg), pk))
            L.append("@impl scan::msgalts %s %s %s %s" % (s, sig, K.hx(msg), pk))
            # other key (another seed), sibling scheme of the same sizes
            pk2 = _st["keys"][s][1][0]
            e["neg"] = []
            e["neg"].append(K.verify_raw(s, sig, msg, pk2))
            sib = K.SIBLING[s]
            if S.P(sib).sig == S.P(s).sig:
                e["neg"].append(K.verify_raw(sib, sig, msg, pk))
            # a sample of alterations compared with the model as well
            sb = bytearray(bytes.fromhex(sig))
            p = S.P(s)
            for pos in sorted({0, 7, 8 * p.ctilde - 1, 8 * p.ctilde, 8 * (p.ctilde + 5) + 3, 8 * (p.sig - p.omega - p.k) + 1, 8 * (p.sig - p.k), 8 * p.sig - 1} | {rng.randrange(8 * p.sig) for _ in range(6)}):
                w = bytearray(sb); w[pos // 8] ^= 1 << (pos % 8)
                e["neg"].append(K.verify_raw(s, w.hex(), msg, pk))
            e["neg"].append(K.verify_raw(s, sig[:-2], msg, pk))
            e["neg"].append(K.verify_raw(s, sig + "00", msg, pk))
            e["neg"].append(K.verify_raw(s, sig, msg + b"\x00", pk))
            if len(msg):
                m2 = bytearray(msg); m2[0] ^= 1
                e["neg"].append(K.verify_raw(s, sig, bytes(m2), pk))
            e["pos"] = K.verify_raw(s, sig, msg, pk)
            L.extend(e["neg"]); L.append(e["pos"])
        for e in _st.get("api", []):
            sig = K.sig_of(checked[idx[e["req"]]])
            if sig is None:
                continue
            s, ctx, msg, ph, pk = e["set"], e["ctx"], e["msg"], e["ph"], e["pk"]
            dil = e.get("dil", False)
            if dil:
                VS = lambda sg: K.api_verify(s, pk, msg, sg)
                e["neg"] = [K.api_verify(s, pk, msg + bytes(k2), sig) for k2 in (1, 2, 8, 51, 100)] + [K.api_verify(s, pk, msg[:-1], sig)]
            else:
                V = lambda m, c, h: K.api_verify(s, pk, m, sig, c) if h is None else K.api_prehash_verify(s, pk, m, sig, c, h)
                VS = lambda sg: K.api_verify(s, pk, msg, sg, ctx) if ph is None else K.api_prehash_verify(s, pk, msg, sg, ctx, ph)
                alts = [] if (ctx is None or len(ctx) < 2) else [(ctx[-1:] + msg, ctx[:-1], ph), (msg[1:], ctx + msg[:1], ph), (ctx + msg, None, ph), (ctx + msg, b"", ph),
                        (msg, None, ph), (msg, b"", ph), (msg, ctx + b"\x00", ph), (msg, ctx[:-1], ph), (msg + b"\x00", ctx, ph),
                        (msg, ctx, "sha512" if ph == "sha256" else "sha256"), (msg, ctx, None if ph else "sha512")]
                if ctx is None or len(ctx) < 2:
                    alts = [(msg, b"c", ph), (msg + b"\x00", ctx, ph), (msg, ctx, "sha256")]      # (no context = empty context: not an alteration)
                    if msg:
                        alts += [(msg[1:], msg[:1], ph), (msg[:-1], ctx, ph)]
                # the message extended by zero bytes (up to and across 64- and 136-byte boundaries) / with trailing zeros removed
                for k2 in (1, 2, 3, 8, 62 - len(msg) - 1, 62 - len(msg), 62 - len(msg) + 1, 64 - len(msg), 100, 136):
                    if k2 > 0:
                        alts.append((msg + bytes(k2), ctx, ph))
                m3 = msg
                while m3.endswith(b"\x00"):
                    m3 = m3[:-1]; alts.append((m3, ctx, ph))
                e["neg"] = [V(m, c, h) for (m, c, h) in alts]
            e["pos"] = VS(sig)
            # alterations of the signature through every API entry point (each has its own length gate): extended by one
            # byte, by the message (sig || msg), by 100 bytes; truncated; single bits flipped in c~, z, the hint section
            p = S.P(s)
            sb = bytearray(bytes.fromhex(sig))
            sigalts = [sig + "00", sig + "ff", sig + (msg.hex() or "a5"), sig + "00" * 100, sig[:-2], sig[2:], ""]
            for pos in (0, 8 * p.ctilde + 3, 8 * (p.sig - p.omega - p.k) + 1, 8 * p.sig - 1, rng.randrange(8 * p.sig)):
                w = bytearray(sb); w[pos // 8] ^= 1 << (pos % 8)
                sigalts.append(w.hex())
            e["neg"] += [VS(sg if sg else "-") for sg in sigalts]
            # the same through the Keypair entry points (first argument sk || pk): implementation only
            def kp(line):
                t = line.split(" "); t[0] = t[0].replace("::PublicKey::", "::Keypair::"); t[1] = e["sk"] + pk
                return "@impl " + " ".join(t)
            e["neg"] += [kp(v) for v in list(e["neg"])]
            L.extend(e["neg"]); L.append(e["pos"])
            e["pos2"] = kp(e["pos"]); L.append(e["pos2"])
        return L
    return []


def weight(line):
    t = line.split()
    if line.startswith("@impl scan::sigflips"):
        return 8 * (len(t[3]) // 2)
    if line.startswith("@impl scan::siglens"):
        return len(t[3]) // 2 + 8
    if line.startswith("@impl scan::msgalts"):
        n = 0 if t[4] == "-" else len(t[4]) // 2
        return 9 * n + 3
    return 1


def violated_all(lines, model, checked, release):
    out = []
    idx = {l: i for i, l in enumerate(lines)}
    for i, l in enumerate(lines):
        if l.startswith("@impl scan::") and not l.startswith("@impl scan::findsig"):
            for prof, ans in (("checked", checked), ("wrapping", release)):
                a = ans[i]
                if not a.startswith("ok ") or " accepted=0 " not in a or " panics=0 " not in a:
                    out.append((i, "%s build: %s on a valid %s signature: %s" % (prof, l.split()[1], l.split()[2], a[:160])))
    for e in _st["trip"] + _st.get("api", []):
        for v in e.get("neg", []):
            if v in idx:
                for prof, ans in (("checked", checked), ("wrapping", release)):
                    if ans[idx[v]] != "ok false":
                        out.append((idx[v], "%s build: altered data was not rejected: %s -> %s (the signature was made for message %s, context %s, mode %s)" % (
                            prof, v.split()[0], ans[idx[v]], K.hx(e["msg"]), K.ctxs(e.get("ctx")), e.get("ph") or "pure")))
        for key in ("pos", "pos2"):
            if key in e and e[key] in idx and checked[idx[e[key]]] != "ok true":
                out.append((idx[e[key]], "the unaltered signature does not verify (%s)" % e[key].replace("@impl ", "").split()[0]))
    return out


def nontrivial(line, model_ans):
    return True
