"""C15 — rounding reconstructs; hints recover exactly the signer's high bits."""
ID = "C15"
SPEC_ORACLE = ['rounding']   # specification definitions used by Props/C15.lean are compared with hashlib / pyspec on every run
Q = 8380417
G = {"lvl2": 95232, "lvl3": 261888, "lvl5": 261888}
M = {"lvl2": 44, "lvl3": 16, "lvl5": 16}
RULE = ("every a in [0,q) for power2round and the three decompose / use_hint copies (both hint bits); every (a0, w1) with "
        "w1 in [0,m), |a0| < 2*gamma2 for the composite use_hint((w1*2*gamma2+a0) mod q, make_hint(a0,w1)); make_hint on "
        "a0 in [-2*gamma2-2, 2*gamma2+2] for w1 in {0,1,m/2,m-1}. Sweeps are compared by per-chunk checksums and bisected on "
        "mismatch. distinct_nontrivial = distinct request lines with model answer ok (one per sweep window); evaluations = input values. Polynomial-level wrappers (use_hint, use_hint_ip, decompose, make_hint) of all six poly modules at every interval boundary.")
EXPLANATION = ("Props/C15.lean proves the contracts for all inputs (power2round, decompose for both gamma2, = FIPS 204 Alg. 35/36/40, "
               "UseHint(MakeHint) = w1, make_hint = spec MakeHint). The tie is exhaustive over the scalar domains in both tiers; "
               "thorough additionally sweeps out-of-domain i32 inputs (model says which fault).")
ASSUMPTIONS = ["out-of-domain behaviour (a outside [0,q)) is compared between model and code but is not part of the property"]


def exhaustive(tier):
    return True


def weight(line):
    t = line.split()
    return int(t[3]) - int(t[2]) if t[0] == "sweep" else 1


def requests(tier, rng):
    L = []
    W = 2**19
    def sw(fn, lo, hi, *rest):
        for a in range(lo, hi, W):
            L.append(("sweep %s %d %d %d " % (fn, a, min(a + W, hi), 2**16)) + " ".join(str(x) for x in rest))
    sw("rounding::power2round", 0, Q)
    for lv in ("lvl2", "lvl3", "lvl5"):
        g, m = G[lv], M[lv]
        sw("rounding::%s::decompose" % lv, 0, Q)
        sw("rounding::%s::use_hint" % lv, 0, Q, 0)
        sw("rounding::%s::use_hint" % lv, 0, Q, 1)
        for w1 in sorted({0, 1, m // 2, m - 1}):
            sw("rounding::%s::make_hint" % lv, -2 * g - 2, 2 * g + 3, w1)
        for w1 in range(m):
            sw("rounding::%s::hint_roundtrip" % lv, -2 * g + 1, 2 * g, w1)
    # corners as single requests (the property predicate is evaluated on these directly)
    for lv in ("lvl2", "lvl3", "lvl5"):
        g, m = G[lv], M[lv]
        for a in (0, 1, g - 1, g, g + 1, 2 * g - 1, 2 * g, 2 * g + 1, Q - 1, Q - 2, Q - 1 - g, Q - g, Q - g + 1, (Q - 1) // 2, (Q + 1) // 2):
            L.append("rounding::%s::decompose %d" % (lv, a))
            L.append("rounding::%s::use_hint %d 0" % (lv, a))
            L.append("rounding::%s::use_hint %d 1" % (lv, a))
        for (w1, a0) in ((m - 1, g + 1), (0, -g), (5, -g), (0, -g - 1), (m - 1, 2 * g - 1), (0, -2 * g + 1), (m - 1, g), (1, -g)):
            L.append("rounding::%s::hint_roundtrip %d %d" % (lv, a0, w1))
            L.append("rounding::%s::make_hint %d %d" % (lv, a0, w1))
    for a in (0, 1, 4095, 4096, 4097, 8191, 8192, Q - 1, Q - 4096, Q - 4097):
        L.append("rounding::power2round %d" % a)
    # the polynomial-level wrappers of all six poly modules (use_hint and its in-place twin use_hint_ip, decompose,
    # make_hint): every boundary of every rounding interval, both hint bits, low parts of either sign at high part 0 and m-1
    from .. import pyspec as S
    for s in ("lvl2", "lvl3", "lvl5", "ml_dsa_44", "ml_dsa_65", "ml_dsa_87"):
        g = S.P(s).gamma2; m = (Q - 1) // (2 * g)
        vals = []
        for k in range(m + 1):
            for d in (-2, -1, 0, 1, 2):
                vals += [k * 2 * g + d, k * 2 * g + g + d]
        vals += [0, 1, Q - 1, Q - 2, Q - g, Q - g - 1, Q - g + 1, (Q - 1) // 2]
        vals = sorted({v for v in vals if 0 <= v < Q})
        vals += [rng.randrange(Q) for _ in range((-len(vals)) % 256)]
        for off in range(0, len(vals), 256):
            A = vals[off:off + 256]
            for H in ([0] * 256, [1] * 256, [(j + off // 256) % 2 for j in range(256)]):
                L.append("poly::%s::use_hint %s %s" % (s, ",".join(map(str, A)), ",".join(map(str, H))))
                L.append("poly::%s::use_hint_ip %s %s" % (s, ",".join(map(str, A)), ",".join(map(str, H))))
            L.append("poly::%s::decompose %s" % (s, ",".join(map(str, A))))
        a0 = [(-g, g, -g - 1, g + 1, 0, -1, 1, g - 1, -g + 1)[j % 9] for j in range(256)]
        for a1 in ([0] * 256, [m - 1] * 256, [j % m for j in range(256)]):
            L.append("poly::%s::make_hint %s %s" % (s, ",".join(map(str, a0)), ",".join(map(str, a1))))
    if tier == "thorough":
        for fn in ["rounding::power2round"] + ["rounding::%s::decompose" % lv for lv in G]:
            for _ in range(2000):
                base = rng.randrange(-2**31, 2**31 - 4096)
                L.append("sweep %s %d %d %d" % (fn, base, base + 4096, 4096))
    return L


def nontrivial(line, model_ans):
    return model_ans.startswith("ok")


def _vals(ans):
    return [int(x) for x in ans[3:].split(",")] if ans.startswith("ok ") else None


def violated(line, checked, release):
    t = line.split()
    if t[0] == "sweep":
        return None
    fn = t[0]
    if fn.startswith("poly::"):
        from .. import pyspec as S
        parts = fn.split("::")
        g = S.P(parts[1]).gamma2
        if parts[2] in ("use_hint", "use_hint_ip"):
            A = [int(x) for x in t[1].split(",")]; H = [int(x) for x in t[2].split(",")]
            want = [S.use_hint(g, h, a) for a, h in zip(A, H)]
            for prof, ans in (("checked", checked), ("wrapping", release)):
                r = _vals(ans)
                if r != want:
                    bad = [j for j in range(256) if r is None or j >= len(r) or r[j] != want[j]][:1]
                    j = bad[0] if bad else 0
                    return "%s build: %s is not UseHint (FIPS 204 Alg. 40) coefficient by coefficient: at a = %d, hint %d it gives %s, the specification %d" % (
                        prof, fn, A[j], H[j], (r[j] if r and j < len(r) else ans[:20]), want[j])
        return None
    args = [int(x) for x in t[1:]]
    for prof, ans in (("checked", checked), ("wrapping", release)):
        r = _vals(ans)
        if fn == "rounding::power2round" and 0 <= args[0] < Q:
            if r is None:
                return "%s build: power2round(%d) panics" % (prof, args[0])
            a0, a1 = r
            if args[0] != a1 * 8192 + a0 or not (-4096 < a0 <= 4096):
                return "%s build: power2round(%d) = (a0=%d, a1=%d) violates a = a1*2^13 + a0, -2^12 < a0 <= 2^12" % (prof, args[0], a0, a1)
        for lv in G:
            g, m = G[lv], M[lv]
            if fn == "rounding::%s::decompose" % lv and 0 <= args[0] < Q:
                if r is None:
                    return "%s build: %s(%d) panics" % (prof, fn, args[0])
                a0, a1 = r
                ok = 0 <= a1 < m and (a1 * 2 * g + a0 - args[0]) % Q == 0 and abs(a0) <= g
                if args[0] - (args[0] % (2 * g) if args[0] % (2 * g) <= g else args[0] % (2 * g) - 2 * g) == Q - 1:
                    ok = ok and a1 == 0   # the wrap-around at q-1
                if not ok:
                    return "%s build: %s(%d) = (a0=%d, a1=%d) violates the decomposition contract" % (prof, fn, args[0], a0, a1)
            if fn == "rounding::%s::use_hint" % lv and 0 <= args[0] < Q and args[1] in (0, 1):
                from .. import pyspec as S
                want = S.use_hint(g, args[1], args[0])
                if r is None or r[0] != want:
                    return "%s build: %s(%d, %d) = %s, FIPS 204 Alg. 40 UseHint gives %d" % (prof, fn, args[0], args[1], r, want)
            if fn == "rounding::%s::hint_roundtrip" % lv and 0 <= args[1] < m and abs(args[0]) < 2 * g:
                if r is None or r[0] != args[1]:
                    return "%s build: %s: use_hint((w1*2g+a0) mod q, make_hint(a0,w1)) = %s but w1 = %d (a0 = %d)" % (prof, lv, r, args[1], args[0])
    return None


def search(tier, rng):
    L = []
    for lv in G:
        g, m = G[lv], M[lv]
        for _ in range(300):
            a = rng.randrange(0, Q)
            L.append("rounding::%s::decompose %d" % (lv, a))
            L.append("rounding::%s::hint_roundtrip %d %d" % (lv, rng.randrange(-2 * g + 1, 2 * g), rng.randrange(0, m)))
        for k in range(m + 1):
            for d in (-1, 0, 1):
                a = min(Q - 1, max(0, k * 2 * g + g + d))
                L.append("rounding::%s::decompose %d" % (lv, a))
    for _ in range(300):
        L.append("rounding::power2round %d" % rng.randrange(0, Q))
    return L
