"""C01 — every signature the library produces verifies (all sets, all modes)."""
from .. import scheme as K
from .. import pyspec as S
ID = "C01"
IMPL_SHARDS = 16   # the six signmany volumes run side by side
RULE = ("keys from seeds (seeded and unseeded generation through the RNG tap, two keys per set in one process); messages of length "
        "0, 1 and the lengths straddling the 136-byte block after the key-hash prefix, long messages; deterministic, hedged / "
        "randomized (real RNG on the implementation, scripted tape for the model comparison), contexts 0..255 bytes, SHA-256 and "
        "SHA-512 pre-hash; every returned signature is checked for exact length and fed to the matching verification entry point. "
        "distinct_nontrivial = distinct sign requests; the evidence reports how many signatures needed more than one iteration. Raw signing into buffers 1/33/64 bytes longer than SIGNBYTES: the written signature must verify.")
EXPLANATION = ("Props/C01.lean: the signing loop returns exactly the first accepted iteration's packed signature (loop logic); the "
               "algebraic completeness theorem (accepted iteration => verify accepts) and termination are not theorems here: partial. "
               "The tie runs sign-then-verify over all entry points.")
ASSUMPTIONS = ["termination of signing is observed (every request returned), not proved"]
_st = {"pairs": []}


def requests(tier, rng):
    L = []
    for s in K.SETS:
        for _ in range(2):
            L.append(K.keygen(s, bytes(rng.randrange(256) for _ in range(32))))
        L.append("@impl sign::%s::keypair none real" % s)
        # volume on the implementation: many messages under one key (late-rejection paths of the loop are taken by about 1 message
        # in 100, a streak of 32 rejections by about 2 in 10^4; a call that does not return shows as a timeout): every
        # signature must be produced and verify (4000 sign+verify pairs take 2-4 s per set in either build)
        n = 12000 if tier == "quick" else 60000
        L.append("@impl scan::signmany %s %s %d" % (s, K.hx(bytes(rng.randrange(256) for _ in range(32))), n))
    return L


def followup(stage, lines, model, checked, release, tier, rng):
    R = lambda n: bytes(rng.randrange(256) for _ in range(n))
    L = []
    if stage == 1:
        for ln, ans in zip(lines, checked):
            if "::keypair" not in ln or not ans.startswith("ok "):
                continue
            s = ln.split("::")[1]
            p = S.P(s)
            pk, sk = K.keys_of(ans)
            _st.setdefault("sk_of", {})[pk] = sk
            pre = p.tr + (2 if p.mldsa else 0)
            lens = sorted({0, 1, 136 - pre - 1, 136 - pre, 136 - pre + 1, 300} | ({2000} if tier == "thorough" else set()))
            reqs = []
            for n in lens[: (3 if "none real" in ln else 99)]:
                reqs.append((K.sign_raw(s, R(n), sk, 0), "raw", None, None))
            m = R(60)
            reqs.append(("@impl " + K.sign_raw(s, m, sk, 1).rsplit(" ", 1)[0] + " real", "raw", None, None))
            # signing into a caller's buffer longer than SIGNBYTES: the SIGNBYTES written must verify
            for extra in (1, 33, 64):
                reqs.append(("@impl sign::%s::signature_cap %d %s %s 0 -" % (s, extra, K.hx(R(20 + extra)), sk), "raw", None, None))
            if p.mldsa:
                for ctx in (None, b"", R(1), R(255)):
                    reqs.append((K.api_sign(s, sk, m, ctx, 0), "api", ctx, None))
                reqs.append(("@impl " + K.api_sign(s, sk, m, b"hedged", 1).rsplit(" ", 1)[0] + " real", "api", b"hedged", None))
                for ph in ("sha256", "sha512"):
                    reqs.append((K.api_prehash_sign(s, sk, m, R(7), 0, ph), "api", None, ph))
                    t = K.api_prehash_sign(s, sk, m, None, 1, ph).split(" ")
                    t[6] = "real"
                    reqs.append(("@impl " + " ".join(t), "api", None, ph))
            else:
                reqs.append((K.api_sign(s, sk, m), "api", None, None))
            for (r, kind, ctx, ph) in reqs:
                _st["pairs"].append(dict(set=s, pk=pk, req=r, kind=kind))
                L.append(r)
                # the Keypair entry points must behave as SecretKey / PublicKey on the two halves of Keypair::to_bytes
                if kind == "api" and not r.startswith("@impl"):
                    t = r.split(" ")
                    if "::SecretKey::" in t[0]:
                        t[0] = t[0].replace("::SecretKey::", "::Keypair::"); t[1] = sk + pk
                        tw = " ".join(t)      # the Keypair entry points are part of the model: compared with it as well
                        _st.setdefault("twins", []).append((tw, r))
                        L.append(tw)
        return L
    if stage == 2:
        idx = {l: i for i, l in enumerate(lines)}
        for e in _st["pairs"]:
            i = idx[e["req"]]
            sig = K.sig_of(checked[i])
            e["sig"] = sig
            if sig is None:
                continue
            t = e["req"].replace("@impl ", "").split()
            s = e["set"]
            if e["kind"] == "raw":
                v = K.verify_raw(s, sig, K.unhx(t[2] if "signature_cap" in t[0] else t[1]), e["pk"])
            else:
                msg = K.unhx(t[2])
                ctx = None if t[3] == "none" else K.unhx(t[3])
                if "prehash_sign" in t[0]:
                    v = K.api_prehash_verify(s, e["pk"], msg, sig, ctx, t[5])
                elif S.P(s).mldsa:
                    v = K.api_verify(s, e["pk"], msg, sig, ctx)
                else:
                    v = K.api_verify(s, e["pk"], msg, sig)
            e["ver"] = v
            L.append(v)
            if "::PublicKey::" in v:
                t = v.split(" ")
                t[0] = t[0].replace("::PublicKey::", "::Keypair::")
                sk0 = _st.get("sk_of", {}).get(e["pk"])
                if sk0:
                    t[1] = sk0 + e["pk"]
                    tw = " ".join(t)      # the Keypair entry points are part of the model: compared with it as well
                    _st.setdefault("twins", []).append((tw, v))
                    L.append(tw)
        return L
    return []


def violated_all(lines, model, checked, release):
    out = []
    idx = {l: i for i, l in enumerate(lines)}
    for i, l in enumerate(lines):
        if l.startswith("@impl scan::signmany "):
            n = l.split()[4]
            for prof, ans in (("checked", checked), ("wrapping", release)):
                if ans[i] != "ok n=%s bad=-" % n and ans[i] != "timeout":
                    out.append((i, "%s build: signing %s messages under one %s key: %s" % (prof, n, l.split()[2], ans[i][:60])))
    for (tw, orig) in _st.get("twins", []):
        i, j = idx.get(tw), idx.get(orig)
        if i is None or j is None:
            continue
        for prof, ans in (("checked", checked), ("wrapping", release)):
            if ans[i] != ans[j]:
                out.append((i, "%s build: %s answers %s where %s answers %s on the same key material and arguments" % (prof, tw.replace("@impl ", "").split()[0], ans[i][:40], orig.split()[0], ans[j][:40])))
    for e in _st["pairs"]:
        i = idx.get(e["req"])
        if i is None:
            continue
        p = S.P(e["set"])
        for prof, ans in (("checked", checked), ("wrapping", release)):
            sig = K.sig_of(ans[i])
            if sig is None and "signature_cap" in e["req"] and not ans[i].startswith("ok"):
                continue      # a longer buffer refused outright: no signature was produced, nothing to verify
            if sig is None:
                out.append((i, "%s build: signing returned no signature (%s)" % (prof, ans[i][:30])))
                continue
            if len(sig) // 2 != p.sig:
                out.append((i, "%s build: signature has %d bytes, advertised %d" % (prof, len(sig) // 2, p.sig)))
        if "ver" in e and e["ver"] in idx:
            j = idx[e["ver"]]
            for prof, ans in (("checked", checked), ("wrapping", release)):
                if ans[j] != "ok true":
                    out.append((j, "%s build: a signature produced by %s was not accepted by the matching verification (%s)" % (prof, e["req"].split()[0 if not e["req"].startswith("@impl") else 1], ans[j])))
    return out


def nontrivial(line, model_ans):
    return "sign" in line.split()[0] or (line.startswith("@impl") and "sign" in line)
