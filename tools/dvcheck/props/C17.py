"""C17 — samplers are the specification's functions of their seeds and stay in range."""
from .. import pyspec as S
ID = "C17"
SPEC_ORACLE = ['samplers', 'shake']   # specification definitions used by Props/C17.lean are compared with hashlib / pyspec on every run
Q = 8380417
SETS = ["lvl2", "lvl3", "lvl5", "ml_dsa_44", "ml_dsa_65", "ml_dsa_87"]
RULE = ("byte-level rejection routines on crafted buffers (all-accept, all-reject, exact fill on the last byte, buffers too short, "
        "alen = 0, lengths 0..7 mod 3, alen > capacity must fault) and random buffers; the four samplers on (seed, nonce) pairs with "
        "high and low nonce bytes for each of the 6 poly modules; the vector samplers (nonce layouts of ExpandA / ExpandS / "
        "ExpandMask) for the 3 polyvec modules. Every answer is compared with an independent Python RejNTTPoly / RejBoundedPoly / "
        "ExpandMask / SampleInBall over hashlib SHAKE, and with the range/weight conditions. distinct_nontrivial = distinct requests; "
        "the evidence counts how many eta samples needed a second stream block. Corpus: tight eta streams, ExpandMask at the ends of its range; rej_uniform buffers with runs of out-of-range candidates.")
EXPLANATION = ("Props/C17.lean: the rejection routines return exactly the accepted values in order for any buffer (list induction), "
               "ranges of accepted values; the samplers are those routines applied to the SHAKE stream. Refill of uniform/challenge "
               "(probability < 2^-100 with real SHAKE) is covered by the theorems only: it cannot be exercised without an XOF tap.")
ASSUMPTIONS = ["hashlib SHAKE-128/256 as the stream oracle", "the refill loops of poly::uniform and challenge are modelled, not exercised (no XOF hook was added)"]
stats_refill = [0, 0]


def fmt(p):
    return ",".join(str(x) for x in p)


def hx(b):
    return bytes(b).hex() if len(b) else "-"


def requests(tier, rng):
    L = []
    R = lambda n: bytes(rng.randrange(256) for _ in range(n))
    # rej_uniform alen acap buf buflen
    bufs = [bytes(840), bytes([255]) * 840, bytes([0, 0, 0x80] * 280), bytes([0x00, 0xE0, 0x7F] * 100), bytes([0x01, 0xE0, 0x7F] * 100), bytes([0x01, 0xE0, 0xFF] * 100)]
    bufs += [R(rng.randrange(0, 900)) for _ in range(10 if tier == "quick" else 200)]
    for b in bufs:
        for alen in (256, 0, 1, 5, len(b) // 3, len(b) // 3 + 1):
            for buflen in sorted({len(b), max(0, len(b) - 1), max(0, len(b) - 2), min(len(b), 7), 0}):
                L.append("poly::rej_uniform %d %d %s %d" % (alen, max(alen, 1), hx(b), buflen))
    L.append("poly::rej_uniform 10 3 %s 300" % hx(bytes(300)))        # more accepted values than capacity: panic
    L.append("poly::rej_uniform 10 10 %s 12" % hx(bytes(9)))          # buflen beyond the buffer: panic
    for lv in ("lvl2", "lvl3", "lvl5", "ml_dsa_44", "ml_dsa_65", "ml_dsa_87"):
        ebufs = [bytes(136), bytes([255]) * 136, bytes([0xFE] * 200), bytes([0x8F] * 200), bytes([0x08, 0x80] * 70), bytes([0xF0, 0x0F] * 200)]
        ebufs += [R(rng.randrange(0, 300)) for _ in range(6 if tier == "quick" else 60)]
        for b in ebufs:
            for alen in (256, 0, 1, max(0, 2 * len(b) - 1), 2 * len(b)):
                L.append("poly::%s::rej_eta %d %d %s %d" % (lv, alen, max(alen, 1), hx(b), len(b)))
            L.append("poly::%s::rej_eta 7 7 %s %d" % (lv, hx(b), min(len(b), 3)))
        L.append("poly::%s::rej_eta 10 3 %s 100" % (lv, hx(bytes(100))))
    ns = 12 if tier == "quick" else 100
    nonces = [0, 1, 255, 256, 0x0102, 0xFF00, 65535]
    for _ in range(ns):
        seed = R(64)
        for nonce in [rng.choice(nonces), rng.randrange(65536)]:
            L.append("poly::uniform %s %d" % (hx(seed[:32]), nonce))
            for s in SETS:
                L.append("poly::%s::uniform_eta %s %d" % (s, hx(seed), nonce))
                L.append("poly::%s::uniform_gamma1 %s %d" % (s, hx(seed), nonce))
        for s in SETS:
            L.append("poly::%s::challenge %s" % (s, hx(seed)))
    # the challenge sampler's rare steps (a stream byte equal to the running index, early large bytes) need many seeds
    for _ in range(80 if tier == "quick" else 1500):
        seed = R(64)
        for s in SETS:
            L.append("poly::%s::challenge %s" % (s, hx(seed)))
    # boundary-seeking: streams for which the eta = 4 sampler needs a THIRD SHAKE-256 block (about 1 in 10^5) --
    # found by searching with hashlib, then given to model and code
    for (seed, nonce) in S.find_eta_seeds(4, 2, rng, want=(2 if tier == "quick" else 8)):
        for s in ("lvl3", "ml_dsa_65"):
            L.append("poly::%s::uniform_eta %s %d" % (s, hx(seed), nonce))
    # corpus of "tight" streams (kat/eta_tight_seeds.json, found once by search): the refill block's first (256 - accepted)
    # bytes do not hold enough accepted half-bytes -- where a sampler that limits the bytes it examines goes wrong
    import json, os
    from .. import core as _core
    tight = json.load(open(os.path.join(_core.VERIF, "kat", "eta_tight_seeds.json")))
    for eta, sets in (("2", ("lvl2", "ml_dsa_44", "lvl5", "ml_dsa_87")), ("4", ("lvl3", "ml_dsa_65"))):
        for (seedhex, nonce) in tight["streams"][eta][: (4 if tier == "quick" else 12)]:
            for s in sets:
                L.append("poly::%s::uniform_eta %s %d" % (s, seedhex, nonce))
    # ExpandMask at the very ends of its range (+gamma1: stream field 0; -gamma1+1: all ones), about 2^-10 / 2^-12 of the
    # polynomials: nonces found once by search for the fixed seed 00 01 .. 3f
    g1x = tight.get("gamma1_extreme", {})
    for bits, sets in (("18", ("lvl2", "ml_dsa_44")), ("20", ("lvl3", "lvl5", "ml_dsa_65", "ml_dsa_87"))):
        e = g1x.get(bits)
        if e:
            for nonce in e["plus_gamma1"][: (3 if tier == "quick" else 6)] + e["minus_gamma1_plus_1"][: (3 if tier == "quick" else 6)]:
                for s in sets:
                    L.append("poly::%s::uniform_gamma1 %s %d" % (s, e["seed"], nonce))
    # runs of out-of-range candidates (1, 2, 3, 5 in a row) at the start, in the middle and at the end of a rej_uniform buffer
    for run in (1, 2, 3, 5):
        for where in ("start", "mid", "end"):
            good = [bytes([rng.randrange(256), rng.randrange(256), rng.randrange(0x7F)]) for _ in range(40)]
            bad = [bytes([0xFF, 0xFF, 0x7F])] * run
            blocks = bad + good if where == "start" else (good[:20] + bad + good[20:] if where == "mid" else good + bad)
            b = b"".join(blocks)
            for alen in (256, len(good), len(good) - 1, 21):
                L.append("poly::rej_uniform %d %d %s %d" % (alen, max(alen, 1), hx(b), len(b)))
    for lv in ("lvl2", "lvl3", "lvl5"):
        for _ in range(1 if tier == "quick" else 6):
            seed = R(64)
            L.append("polyvec::%s::matrix_expand %s" % (lv, hx(seed[:32])))
            for nonce in (0, S.P(lv).l, 300):
                L.append("polyvec::%s::l_uniform_eta %s %d" % (lv, hx(seed), nonce))
                L.append("polyvec::%s::k_uniform_eta %s %d" % (lv, hx(seed), nonce))
            for nonce in (0, 1, 77, 65535 // S.P(lv).l):
                L.append("polyvec::%s::l_uniform_gamma1 %s %d" % (lv, hx(seed), nonce))
            L.append("polyvec::%s::l_uniform_gamma1 %s %d" % (lv, hx(seed), 65535 // S.P(lv).l + 1))   # u16 overflow: checked build panics
    return L


def le16(n):
    return bytes([n & 255, n >> 8])


def spec(line):
    t = line.split()
    parts = t[0].split("::")
    B = lambda s: bytes.fromhex(s) if s != "-" else b""
    if parts[0] == "poly" and parts[1] == "rej_uniform":
        alen, acap, buf, buflen = int(t[1]), int(t[2]), B(t[3]), int(t[4])
        out = []; pos = 0
        while len(out) < alen and pos + 3 <= buflen:
            if pos + 2 >= len(buf):
                return "fault"
            v = (buf[pos] | (buf[pos + 1] << 8) | (buf[pos + 2] << 16)) & 0x7FFFFF
            pos += 3
            if v < Q:
                if len(out) >= acap:
                    return "fault"
                out.append(v)
        return "ok %d %s" % (len(out), fmt(out) if out else "-")
    if parts[0] == "poly" and len(parts) == 3 and parts[2] == "rej_eta":
        p = S.P(parts[1])
        alen, acap, buf, buflen = int(t[1]), int(t[2]), B(t[3]), int(t[4])
        out = []; pos = 0
        while len(out) < alen and pos < buflen:
            if pos >= len(buf):
                return "fault"
            z = buf[pos]; pos += 1
            for idx, tt in enumerate((z & 15, z >> 4)):
                if idx == 1 and not len(out) < alen:
                    break
                acc = None
                if p.eta == 2 and tt < 15:
                    acc = 2 - tt % 5
                if p.eta == 4 and tt < 9:
                    acc = 4 - tt
                if acc is not None:
                    if len(out) >= acap:
                        return "fault"
                    out.append(acc)
        return "ok %d %s" % (len(out), fmt(out) if out else "-")
    if parts[0] == "poly" and parts[1] == "uniform":
        return "ok " + fmt(S.rej_ntt_poly(B(t[1])[:32] + le16(int(t[2]))))
    if parts[0] == "poly" and len(parts) == 3:
        p = S.P(parts[1])
        if parts[2] == "uniform_eta":
            return "ok " + fmt(S.rej_bounded_poly(p.eta, B(t[1])[:64] + le16(int(t[2]))))
        if parts[2] == "uniform_gamma1":
            return "ok " + fmt(S.expand_mask_poly(p, B(t[1])[:64] + le16(int(t[2]))))
        if parts[2] == "challenge":
            return "ok " + fmt(S.sample_in_ball(p, B(t[1])[:p.ctilde]))
    if parts[0] == "polyvec":
        p = S.P(parts[1])
        seed = B(t[1])
        if parts[2] == "matrix_expand":
            return "ok " + "|".join(";".join(fmt(S.rej_ntt_poly(seed[:32] + bytes([j, i]))) for j in range(p.l)) for i in range(p.k))
        n = int(t[2])
        if parts[2] in ("l_uniform_eta", "k_uniform_eta"):
            cnt = p.l if parts[2][0] == "l" else p.k
            if n + cnt > 65535 + 0:   # the nonce is incremented after every polynomial: 65535 + 1 overflows u16
                return None
            return "ok " + ";".join(fmt(S.rej_bounded_poly(p.eta, seed[:64] + le16(n + i))) for i in range(cnt))
        if parts[2] == "l_uniform_gamma1":
            if p.l * n + p.l - 1 > 65535:
                return "fault"
            return "ok " + ";".join(fmt(S.expand_mask_poly(p, seed[:64] + le16(p.l * n + i))) for i in range(p.l))
    return None


def expected(line):
    return spec(line)


def violated(line, checked, release):
    e = spec(line)
    if e is None:
        return None
    for prof, ans in (("checked", checked), ("wrapping", release)):
        if e == "fault":
            if prof == "checked" and ans != "fault":
                return "checked build: %s should refuse (out-of-bounds / u16 overflow) but answered %s" % (line.split()[0], ans[:60])
            continue
        if ans != e:
            return "%s build: %s is not the specification's sampling of the stream: got %s.., expected %s.." % (prof, " ".join(line.split()[:1]), ans[:60], e[:60])
    return None


def stats(lines, model):
    # how many eta samples consumed more than one SHAKE-256 block (refill path)
    import hashlib
    n = r = 0
    for l in lines:
        t = l.split()
        p = t[0].split("::")
        if len(p) == 3 and p[2] == "uniform_eta":
            n += 1
            eta = S.P(p[1]).eta
            s = hashlib.shake_256(bytes.fromhex(t[1])[:64] + le16(int(t[2]))).digest(136)
            acc = sum(1 for z in s for tt in (z & 15, z >> 4) if (tt < 15 if eta == 2 else tt < 9))
            if acc < 256:
                r += 1
    return dict(uniform_eta_samples=n, uniform_eta_needing_refill=r)


def nontrivial(line, model_ans):
    return model_ans.startswith("ok")
