"""C11 — key containers serialize and deserialize losslessly."""
from .. import scheme as K
from .. import pyspec as S
ID = "C11"
RULE = ("for each of the 6 sets x 3 containers: from_bytes/to_bytes on generated keys and on random byte strings of the right length, "
        "on lengths N-1, N+1, 0, 1, the sizes of the other containers and (harness-side loop) EVERY length 0..N+64 (must be refused); the pair's byte form must be "
        "sk || pk; round-tripped keys must give the same signatures and verification decisions. distinct_nontrivial = distinct requests. Text-like bytes (LF, CR, blank, tab, NUL, quote, '=', DEL, 0xFF) at the ends and the sk/pk seam, lengths N, N+-1, N+2.")
EXPLANATION = "Props/C11.lean proves the container identities and the refusal of every wrong length in the model; the tie runs all 18 containers."
ASSUMPTIONS = ["`refused` = the Rust `expect` panic, observed through catch_unwind"]
_keys = {}


def requests(tier, rng):
    L = []
    for s in K.SETS:
        L.append(K.keygen(s, bytes(rng.randrange(256) for _ in range(32))))
    return L


def followup(stage, lines, model, checked, release, tier, rng):
    if stage != 1:
        return []
    L = []
    R = lambda n: bytes(rng.randrange(256) for _ in range(n))
    for ln, ans in zip(lines, checked):
        s = ln.split("::")[1]
        if not ans.startswith("ok "):
            continue
        pk, sk = K.keys_of(ans)
        _keys[s] = (pk, sk)
        p = S.P(s)
        a = K.API[s]
        L.append("%s::SecretKey::roundtrip %s" % (a, sk))
        L.append("%s::PublicKey::roundtrip %s" % (a, pk))
        L.append("%s::Keypair::roundtrip %s" % (a, sk + pk))
        L.append("%s::Keypair::roundtrip %s" % (a, pk + sk))     # wrong order has the right total length: accepted as bytes, split at SK
        for n in (p.sk - 1, p.sk + 1, 0, 1, p.pk, p.sk + p.pk):
            L.append("%s::SecretKey::roundtrip %s" % (a, K.hx(R(n))))
        for n in (p.pk - 1, p.pk + 1, 0, 1, p.sk, p.sk + p.pk):
            L.append("%s::PublicKey::roundtrip %s" % (a, K.hx(R(n))))
        for n in (p.sk + p.pk - 1, p.sk + p.pk + 1, 0, p.sk, p.pk, p.sk - 1):
            L.append("%s::Keypair::roundtrip %s" % (a, K.hx(R(n))))
        L.append("%s::SecretKey::roundtrip %s" % (a, K.hx(R(p.sk))))
        L.append("%s::PublicKey::roundtrip %s" % (a, K.hx(R(p.pk))))
        L.append("%s::Keypair::roundtrip %s" % (a, K.hx(R(p.sk + p.pk))))
        # keys are binary: bytes that mean something in text (line feed, carriage return, blank, tab, NUL, quote, DEL, 0xFF,
        # '=' padding) at the end, at the start and at the sk/pk seam - on strings of the right length (must round-trip) and
        # of lengths N+1, N+2, N-1 (must be refused, whatever the extra bytes are)
        for (ty, n) in (("SecretKey", p.sk), ("PublicKey", p.pk), ("Keypair", p.sk + p.pk)):
            for sp in (0x0A, 0x0D, 0x20, 0x09, 0x00, 0x22, 0x3D, 0x7F, 0xFF):
                base = bytearray(R(n))
                e = bytearray(base); e[-1] = sp; L.append("%s::%s::roundtrip %s" % (a, ty, K.hx(bytes(e))))
                e = bytearray(base); e[0] = sp; L.append("%s::%s::roundtrip %s" % (a, ty, K.hx(bytes(e))))
                if ty == "Keypair":
                    e = bytearray(base); e[p.sk - 1] = sp; e[p.sk] = sp; L.append("%s::%s::roundtrip %s" % (a, ty, K.hx(bytes(e))))
                L.append("%s::%s::roundtrip %s" % (a, ty, K.hx(bytes(base) + bytes([sp]))))
                L.append("%s::%s::roundtrip %s" % (a, ty, K.hx(bytes([sp]) + bytes(base))))
                L.append("%s::%s::roundtrip %s" % (a, ty, K.hx(bytes(base[:-1]))[:-2] + "%02x" % sp))
            L.append("%s::%s::roundtrip %s" % (a, ty, K.hx(bytes(base) + b"\r\n")))
            L.append("%s::%s::roundtrip %s" % (a, ty, K.hx(bytes([0x0A]) * n)))
            L.append("%s::%s::roundtrip %s" % (a, ty, K.hx(bytes([0x0A]) * (n + 1))))
        # every length from 0 to N + 64 (harness-side loop): the only accepted length must be N
        for (ty, n) in (("SecretKey", p.sk), ("PublicKey", p.pk), ("Keypair", p.sk + p.pk)):
            L.append("@impl %s::%s::accepted_lengths %d" % (a, ty, n + 64))
        # behaviour through the containers: API sign/verify (which go through from_bytes) = raw functions on the same bytes
        msg = R(40)
        L.append(K.api_sign(s, sk, msg))
        L.append(K.sign_raw(s, K.frame(msg, None) if p.mldsa else msg, sk))
    return L


def violated(line, checked, release):
    t = line.split()
    parts = t[0].split("::")
    if len(parts) == 3 and parts[2] == "roundtrip":
        s = [k for k, v in K.API.items() if v == parts[0]][0]
        p = S.P(s)
        n = {"SecretKey": p.sk, "PublicKey": p.pk, "Keypair": p.sk + p.pk}[parts[1]]
        b = K.unhx(t[1])
        for prof, ans in (("checked", checked), ("wrapping", release)):
            if len(b) == n and ans != "ok " + K.hx(b):
                return "%s build: %s::%s: from_bytes then to_bytes does not return the same bytes" % (prof, parts[0], parts[1])
            if len(b) != n and ans != "fault":
                return "%s build: %s::%s::from_bytes accepted %d bytes (expected %d): %s" % (prof, parts[0], parts[1], len(b), n, ans[:40])
    return None


def violated_all(lines, model, checked, release):
    out = []
    for i, l in enumerate(lines):
        if "::accepted_lengths " in l:
            t = l.split()
            parts = t[1].split("::")
            s = [k for k, v in K.API.items() if v == parts[0]][0]
            p = S.P(s)
            n = {"SecretKey": p.sk, "PublicKey": p.pk, "Keypair": p.sk + p.pk}[parts[1]]
            for prof, ans in (("checked", checked), ("wrapping", release)):
                if ans[i] != "ok %d" % n:
                    got = ans[i][3:].split(",") if ans[i].startswith("ok ") else [ans[i]]
                    extra = [x for x in got if x != str(n)]
                    out.append((i, "%s build: %s::%s::from_bytes accepts byte strings of length %s (standard length %d)" %
                                (prof, parts[0], parts[1], ",".join(extra[:6]) or "none at all", n)))
    for i in range(len(lines) - 1):
        if "::SecretKey::sign " in lines[i] and lines[i + 1].startswith("sign::"):
            for prof, ans in (("checked", checked), ("wrapping", release)):
                if ans[i] != ans[i + 1]:
                    out.append((i, "%s build: signing through the SecretKey container differs from signing with the same bytes directly" % prof))
    return out


def nontrivial(line, model_ans):
    return True
