#!/usr/bin/env python3
"""search for SHAKE-256 streams on which the eta samplers are 'tight':
 kind A (refill-prefix): after the initial blocks fewer than 256 nibbles are accepted AND the first (256-a) bytes of the
        next block do not hold (256-a) accepted nibbles (a sampler that looks at only that many bytes goes wrong)
 kind B (late): the 256th accepted nibble is one of the last 4 nibbles of the last block squeezed
streams: rho'(64) || nonce LE16; also key-generation seeds xi (32 bytes) whose derived rho' has such a polynomial."""
import hashlib, sys, json, os
from multiprocessing import Pool
def tab(eta):
    lim = 15 if eta == 2 else 9
    return bytes(((z & 15) < lim) + ((z >> 4) < lim) for z in range(256))
TAB = {2: tab(2), 4: tab(4)}
def acc(eta, b):
    t = b.translate(TAB[eta]); return t.count(1) + 2 * t.count(2)
def kindA(eta, stream_fn):
    nb = 1 if eta == 2 else 2
    st = stream_fn(136 * (nb + 1))
    a = acc(eta, st[:136 * nb])
    if a >= 256: return False
    m = 256 - a
    return acc(eta, st[136 * nb:136 * nb + m]) < m
def work(args):
    eta, base, lo, hi = args
    out = []
    for i in range(lo, hi):
        seed = i.to_bytes(8, "little") + base
        if kindA(eta, lambda n: hashlib.shake_256(seed + b"\0\0").digest(n)):
            out.append((seed.hex(), 0))
    return out
def workkg(args):
    name, k, l, eta, mldsa, base, lo, hi = args
    out = []
    for i in range(lo, hi):
        xi = i.to_bytes(8, "little") + base
        inp = xi + (bytes([k, l]) if mldsa else b"")
        rhop = hashlib.shake_256(inp).digest(128)[32:96]
        for n in range(k + l):
            if kindA(eta, lambda m: hashlib.shake_256(rhop + bytes([n, 0])).digest(m)):
                out.append(xi.hex()); break
    return out
if __name__ == "__main__":
    res = {"streams": {}, "keygen": {}}
    with Pool(12) as pool:
        for eta, total in ((2, 400000), (4, 24000000)):
            step = total // 240
            r = pool.map(work, [(eta, bytes(56), lo, lo + step) for lo in range(0, total, step)])
            res["streams"][str(eta)] = [x for y in r for x in y][:12]
            print("eta", eta, len([x for y in r for x in y]), file=sys.stderr)
        for (name, k, l, eta, mldsa, total) in (("lvl2", 4, 4, 2, False, 20000), ("ml_dsa_44", 4, 4, 2, True, 20000), ("lvl5", 8, 7, 2, False, 20000), ("ml_dsa_87", 8, 7, 2, True, 20000),
                                                ("lvl3", 6, 5, 4, False, 3000000), ("ml_dsa_65", 6, 5, 4, True, 3000000)):
            step = max(1, total // 240)
            r = pool.map(workkg, [(name, k, l, eta, mldsa, bytes(24), lo, lo + step) for lo in range(0, total, step)])
            res["keygen"][name] = [x for y in r for x in y][:8]
            print(name, len([x for y in r for x in y]), file=sys.stderr)
    json.dump(res, open("tight.json", "w"), indent=1)
