#!/bin/bash
# tools/try_patch.sh <patch.diff> <id> [<id>...] : apply a seeded change to /repo, run the given checks, undo it.
# Prints one line per check: DETECTED (exit 1 + VIOLATION) / missed (exit 0) / error.
set -u
P="$1"; shift
cd /repo || exit 2
git apply --check "$P" || { echo "patch does not apply"; exit 2; }
git apply "$P"
cd /verif
for id in "$@"; do
  out=$(./check "$id" 2>&1); rc=$?
  v=$(echo "$out" | grep -E "^VIOLATION|^KNOWN-FINDING|^OK|^ERROR" | head -2 | tr '\n' ' ')
  if [ $rc -eq 1 ]; then echo "$id DETECTED: $v"; elif [ $rc -eq 0 ]; then echo "$id missed: $v"; else echo "$id error rc=$rc: $(echo "$out" | tail -3 | tr '\n' ' ')"; fi
done
git -C /repo checkout -- .
python3 /verif/tools/extract_constants.py >/dev/null
