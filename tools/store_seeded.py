#!/usr/bin/env python3
"""store a confirmed seeded change under /verif/seeded/<name>/ and record which checks catch it.
usage: store_seeded.py <name> <srcdir> <property> "<needs>" <check ids...>"""
import sys, os, json, shutil, subprocess
name, src, prop, needs = sys.argv[1:5]
ids = sys.argv[5:]
dst = os.path.join("/verif/seeded", name)
os.makedirs(dst, exist_ok=True)
shutil.copy(os.path.join(src, "patch.diff"), dst)
shutil.copy(os.path.join(src, "demo.rs"), dst)
if os.path.exists(os.path.join(src, "HOWTO.txt")):
    shutil.copy(os.path.join(src, "HOWTO.txt"), dst)
conf = subprocess.run(["/verif/tools/confirm_seeded.sh", dst], capture_output=True, text=True).stdout.strip().splitlines()
out = subprocess.run(["/verif/tools/try_patch.sh", os.path.join(dst, "patch.diff")] + ids, capture_output=True, text=True).stdout
det = {}
for ln in out.splitlines():
    t = ln.split()
    if len(t) >= 2 and t[0].startswith("C"):
        det[t[0]] = ("detected" if t[1].startswith("DETECTED") else "missed") + (" (no-failing-input-found)" if "no-failing-input-found" in ln else "")
meta = dict(breaks_property=prop, needs_to_manifest=needs, confirmed=conf[-3:],
            what_was_run=["tools/confirm_seeded.sh seeded/%s (fresh worktree: 52 tests pass with the patch; demo passes clean, fails patched)" % name,
                          "tools/try_patch.sh seeded/%s/patch.diff %s" % (name, " ".join(ids))],
            checks=det)
json.dump(meta, open(os.path.join(dst, "meta.json"), "w"), indent=1)
print(name, det, conf[-1])
