#!/usr/bin/env python3
"""Writes MANIFEST.json from the table below (kept in one place so it stays valid)."""
import json, os
V = os.path.dirname(os.path.dirname(os.path.abspath(__file__)))
props = [json.loads(l) for l in open(os.path.join(V, "properties.jsonl"))]
ids = [p["id"] for p in props]

BASE_NOTE = ("Trusted: Lean 4.33 kernel + propext/Classical.choice/Quot.sound (audited per theorem with #print axioms; no sorry, "
             "no native_decide, no bv_decide); the Props statements and Spec definitions; the differential correspondence "
             "(tools/dvcheck + harness + compiled Lean driver) which is exhaustive only where the evidence says so; Rust integer "
             "semantics as encoded in Impl/Basic.lean. ")

CLAIMS = {
 "C14": dict(text="Theorems for every input of the documented domains (Montgomery: congruence, |r|<q, no i64 overflow; reduce32: congruence, bound, exact fault boundary; caddq) about the checked-semantics model; the model is tied to reduce.rs by checksum sweeps (all 2^32 inputs in thorough; stratified + every 2^23 boundary in quick) in both the overflow-checked and the wrapping build.",
             note="Q and Q_INV are regenerated from src on every run and the obligation Q_INV*Q = 1 mod 2^32 is re-checked by the kernel.",
             tech="Lean 4 proof (omega over wrap/floor-div encodings) + exhaustive differential tie", ref="5/C14"),
 "C15": dict(text="Theorems for all a in [0,q) and all (w1,a0): power2round/decompose contracts for both gamma2, equality with FIPS 204 Alg. 35/36/40, UseHint(MakeHint)=w1 on |a0|<2*gamma2, make_hint = spec MakeHint. Tie: exhaustive sweep of [0,q) for every copy (lvl2/3/5) and of every (w1,a0) pair, both builds.",
             note="Magic constants 11275/1025/shift amounts are in the hand-written model; the exhaustive sweep ties them to the code.",
             tech="Lean 4 proof (omega, case split on the rounding quotient) + exhaustive differential tie", ref="5/C15"),
}

checks = []
for pid in ids:
    if pid not in CLAIMS:
        continue
    c = CLAIMS[pid]
    checks.append(dict(
        property_id=pid,
        quick_cmd="./check %s --tier quick" % pid,
        thorough_cmd="./check %s --tier thorough" % pid,
        evidence_file="evidence/%s.json" % pid,
        replay_cmd_template="./check %s --replay {path}" % pid,
        engine="lean-proof+differential-tie",
        level_claimed=dict(category="proof", text=c["text"], design_ref="DESIGN.md §" + c["ref"]),
        level_note=BASE_NOTE + c["note"],
        technique=c["tech"],
    ))
na = [dict(property_id=p, reason="not claimed yet: model/theorems/tie for this property are still being built (see DESIGN.md §9 order of work); no other technique is substituted")
      for p in ids if p not in CLAIMS]
man = dict(
    version=1,
    setup_cmd="./setup.sh",
    hooks=dict(guard="dilithium_verif", enable="RUSTFLAGS='--cfg dilithium_verif' (set in harness/.cargo/config.toml)",
               baseline_off_cmd="cd /repo && cargo test --workspace --no-fail-fast --offline",
               source_commits=[], add_only=True),
    engines=[dict(name="lean-proof+differential-tie", path="lean/, harness/, tools/dvcheck/, check",
                  serves_properties=[c["property_id"] for c in checks],
                  kind_free_text="Lean 4 theorems about a hand-written executable model (checked-build semantics) + differential correspondence check against the Rust crate built from /repo's working tree")],
    checks=checks,
    notes="See DESIGN.md. known_findings.txt lists fixed/recorded genuine defects.",
    not_applicable=na,
)
json.dump(man, open(os.path.join(V, "MANIFEST.json"), "w"), indent=1)
print("MANIFEST.json: %d checks, %d not claimed" % (len(checks), len(na)))
