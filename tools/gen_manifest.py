#!/usr/bin/env python3
"""Writes MANIFEST.json from the table below (kept in one place so it stays valid)."""
import json, os
V = os.path.dirname(os.path.dirname(os.path.abspath(__file__)))
props = [json.loads(l) for l in open(os.path.join(V, "properties.jsonl"))]
ids = [p["id"] for p in props]

BASE_NOTE = ("Trusted: Lean 4.33 kernel + propext/Classical.choice/Quot.sound (audited per theorem with #print axioms; no sorry, "
             "no native_decide, no bv_decide); the Props statements and Spec definitions; the differential correspondence "
             "(tools/dvcheck + harness + compiled Lean driver) which is exhaustive only where the evidence says so; Rust integer "
             "semantics as encoded in Impl/Basic.lean. ")

CLAIMS = {
 "C14": dict(text="Theorems for every input of the documented domains (Montgomery: congruence, |r|<q, no i64 overflow; reduce32: congruence, bound, exact fault boundary; caddq) about the checked-semantics model; the model is tied to reduce.rs by checksum sweeps (all 2^32 inputs in thorough; stratified + every 2^23 boundary in quick) in both the overflow-checked and the wrapping build.",
             note="Q and Q_INV are regenerated from src on every run and the obligation Q_INV*Q = 1 mod 2^32 is re-checked by the kernel.",
             tech="Lean 4 proof (omega over wrap/floor-div encodings) + exhaustive differential tie", ref="5/C14"),
 "C18": dict(text="chknorm is exact: for every list of coefficients with |x| < 2^30 (superset of the reduce32 range), every position and every bound B <= (q-1)/8 the check returns 1 iff some |x| >= B, no overflow; B > (q-1)/8 always fails; vector wrappers; all bounds of the six sets are in range. Tie: 256 positions x boundary values x all bounds, expected value computed independently.",
             note="The abs trick a - ((a>>31) & 2a) is proved from the two's-complement encoding of & on i32.",
             tech="Lean 4 proof (list induction + omega) + enumerated differential tie", ref="5/C18"),
 "C16": dict(text="Proved on the faithful i32/u8 model, for all in-range inputs and with no overflow: standard sizes of every container; whole-polynomial round trips unpack(pack(p)) = p for t1 (10 bit), t0 (13 bit), eta=2 (3 bit), eta=4 (4 bit), z gamma1=2^17 (18 bit) and 2^19 (20 bit); the hint section (what the packing loops write = index list, zero padding, running counters; the decoding loops return the 0/1 vector it was written from, for every vector with at most omega ones); container round trips unpack_pk(pack_pk), unpack_sk(pack_sk), unpack_sig(pack_sig) with all offsets, for all six sets. Model, code and an independent Python BitPack/SimpleBitPack/HintBitPack agree on every codec and container of the 6 copies (extreme, random, malformed inputs, dirty output buffers, crafted hint sections with bad counters/orders).",
             note="PARTIAL: equality of the byte strings with the FIPS 204 bit-string definitions (and w1Encode = SimpleBitPack) is not a theorem; it rests on the differential tie against the independent Python encoder. Rejection of every non-canonical hint section is C03.",
             tech="Lean 4 proof (bit ops -> arithmetic, omega, list induction over the packing/decoding loops) + differential tie with independent encoder", ref="5/C16"),
 "C19": dict(text="Every vector operation of the model is the component-wise lift (length + per-index theorems for map/zip loops), the matrix product is row-wise accumulated in order j=0.., k_decompose returns (high, low), k_pack_w1 is the concatenation. Tie: each Rust loop of the 3 polyvec modules is compared with the polynomial-level functions of the same build on vectors with pairwise different components, and with an independent HighBits/LowBits.",
             note="The model uses map/zip combinators, so the theorems are about those; the tie is what links each Rust loop (index ranges, transposition, accumulation start) to them.",
             tech="Lean 4 proof (induction over the loop combinators) + differential tie", ref="5/C19"),
 "C13": dict(text="Proved for every input in the documented range, about the checked-semantics model of ntt.rs/poly.rs with ZETAS, F, Q regenerated from the source on every run: (1) no intermediate overflow and outputs < 9q (forward), < q (inverse, margin 256q < 2^31); (2) output i of ntt(a) = a(1753^(2 brv8(i)+1)) mod q (brv8 = 8-bit reversal, an involution, so the points are the 256 odd powers of the 512-th root of unity); (3) invntt_tomont applied to a reduced representative of ntt(a) = 2^32 a mod q; (4) ntt, ntt, pointwise_montgomery, invntt_tomont succeed for all a, b in (-q,q)^256 and give the negacyclic product of a and b mod q with coefficients in (-q,q). The semantic theorems are ring-generic (any commutative ring with q = 0 and 2^32 invertible) and instantiated at Z/q. Tie: model = code on both builds; outputs also compared with plain evaluation and the schoolbook product computed in Python.",
             note="Table facts (tree relations, forward/inverse constant pairing zeta[2^t+j]*(-zeta[2^(t+1)-1-j]) = 2^64, leaves = odd powers of 1753, 256 F = 2^64) are discharged by decide +kernel on the regenerated table: a changed table entry breaks a proof obligation. Z/q comes from Mathlib (Data.ZMod.Basic).",
             tech="Lean 4 proof (ring-generic butterfly algebra over a zeta tree, layer induction, range analysis by omega, decide +kernel on generated tables) + differential tie", ref="5/C13"),
 "C17": dict(text="Proved: rej_uniform on any buffer returns exactly the first `len` accepted 23-bit candidates (< q) of the 3-byte groups, in order, and the count (filter form); candidate < 2^23; eta=2 map t-(205t>>10)*5 = t mod 5 into [-2,2], eta=4 into [-4,4]; block counts and nonce layouts. Tie: every sampler and vector sampler of the 6/3 copies compared with an independent Python RejNTTPoly/RejBoundedPoly/ExpandMask/SampleInBall over hashlib SHAKE; crafted buffers for the byte-level routines; seeds found by search that need a third SHAKE-256 block (eta refill) and 92 challenge seeds per set.",
             note="PARTIAL: the filter-form theorem exists for rej_uniform only (rej_eta, challenge: maps/ranges + tie); the refill loop of poly_uniform is modelled but not reached by any known seed (probability < 2^-100).",
             tech="Lean 4 proof (omega/decide, list induction) + differential tie with independent samplers", ref="5/C17"),
 "C12": dict(text="Proved about the sponge model (any permutation): absorbing a message equals absorbing any 2-split of it (shake128/256 absorb_split), squeezing n bytes = the first n bytes of the block stream, squeezing in two calls = one call (squeeze_split), squeezeblocks = whole blocks of the same stream; rates/round-constant table obligations on the constants regenerated from fips202.rs. Tie: SHAKE model = code = hashlib on every input length 0..3*rate+1, input/output splits, long squeezes, mixed squeezeblocks, absorb_once, stream inits, the permutation on random states. A genuine defect (squeeze index reset per block) was reported by this check and fixed.",
             note="PARTIAL: Keccak-f[1600] itself is not proved equal to the FIPS 202 step maps; it is tied to hashlib (and to the code) on the explored inputs.",
             tech="Lean 4 proof (sponge invariants by induction) + differential tie with hashlib as independent oracle", ref="5/C12"),
 "C04": dict(text="Proved for all six sets and every seed on which the key-generation core succeeds (C04.keygen_relation): the expanded matrix is well formed with entries in [0,q), s1/s2 are in [-eta,eta] (eta = 2, 4, 2 for the three levels), t1 in [0,2^10), t0 in (-2^12,2^12], and t1*2^13 + t0 = A s1 + s2 in Z_q[X]/(X^256+1) (stated at the 256 NTT points in Z/q, which determine the polynomial), every arithmetic step shown free of overflow on the checked-semantics model. Also: seeded generation draws nothing and refuses other lengths; unseeded = seeded on the next 32 tape bytes. Tie: the Lean KeyGen model is validated on every run against 60 OpenSSL 3.5.5 ML-DSA-44/65/87 vectors and the NIST Dilithium vectors, and the code must equal the model byte for byte on KAT, edge and random seeds, seeded and unseeded (RNG tap), raw and API entry points. A genuine defect (ML-DSA-65/87 seed domain separation) was reported by this check and fixed.",
             note="PARTIAL: that rho, rho', K are the specified SHAKE outputs of the seed (and the sampler = FIPS 204 RejNTTPoly/RejBoundedPoly) rests on the KAT-anchored tie; packing of the key parts into pk/sk is C16.",
             tech="Lean 4 proof (range analysis + NTT semantics in Z/q, structural) + KAT-anchored differential tie", ref="5/C04"),
 "C11": dict(text="Container identities proved: from_bytes accepts exactly length N and stores the bytes unchanged, any other length is refused, Keypair bytes = sk || pk and parsing splits exactly there, standard lengths. Tie: 18 containers at lengths N, N+-1, 0, 1, sizes of other containers; signing through a container = signing with the bytes.",
             note="Refusal = the Rust expect() panic observed under catch_unwind.",
             tech="Lean 4 proof + differential tie", ref="5/C11"),
 "C07": dict(text="Proved: framing = FIPS 204 M' (absent ctx = empty), OIDs = DER of id-sha256/512 and equal to every copy's constants, ctx > 255 gives none/false without drawing randomness, framing injective (pure, pre-hash, across modes), and acceptance of one signature for two different representatives yields an explicit SHAKE-256 collision (mu-level or c~-level). Tie: API signature = raw signature of the independently built M' for ctx lengths none/0/1/2/254/255/256/257/1000 and 3 modes; all ordered framing pairs verify/reject as required, incl. same ctx||M with a different split.",
             note="'never verifies under another framing' is proved in the only form possible without a hardness assumption: as the construction of a collision.",
             tech="Lean 4 proof + multi-stage differential tie", ref="5/C07"),
 "C01": dict(text="Proved about the executable model of the whole crate, for all six parameter sets (C01.sign_then_verify and the ML-DSA/Dilithium entry-point corollaries): for every seed (explicit or drawn from the RNG tape), every message of any length, every context of at most 255 bytes or absent, pure / SHA-256 / SHA-512 pre-hash, deterministic or hedged/randomized signing with any RNG tape: if keypair returned (pk, sk) and signing under sk returned a signature, then verification under pk, the same message, context and mode returns true without fault, and the signature has exactly SIGNBYTES bytes. The proof follows the code step by step on the checked-semantics model: key relation t1 2^13 + t0 = A s1 + s2 (C04), NTT semantics (C13), Montgomery/reduction ranges (C14), Decompose/MakeHint/UseHint (C15), norm checks (C18), bit-packing and hint-section round trips (C16), sponge facts (C12), loop logic. NOT proved: termination of the signing loop (a statement about SHAKE outputs; the loop bound is a parameter of the theorem). Tie: the model is compared with the code through every entry point (raw/API, deterministic, hedged/randomized with the real RNG, contexts 0..255, SHA-256/512 pre-hash, seeded/unseeded keys, block-straddling message lengths) and sign-then-verify is observed on the code itself, exact length included.",
             note="PARTIAL only in termination: 'signing always terminates' is observed (and bounded by the u16 nonce in the code), not proved. SHA-2 is external: the digest enters as the same parameter on both sides.",
             tech="Lean 4 proof (end-to-end functional correctness of the model: ring semantics in Z/q, range analysis, codec round trips) + sign/verify differential tie", ref="5/C01"),
 "C02": dict(text="Proved: length gate (every truncation/extension is false without decoding), message/context/mode/hash binding and key binding with an explicit SHAKE-256 collision as conclusion. Not provable (SUF-CMA): rejection of a different (c~,z,h) - covered by the exhaustive single-bit-flip scan per sampled signature (all 8*SIGNBYTES flips, all truncations, all message bit flips/prefixes) on both builds.",
             note="PARTIAL by nature: signature-bit flips rest on observation; binding theorems conclude collisions, they do not assume collision resistance.",
             tech="Lean 4 proof (collision-extraction) + exhaustive alteration scans on the implementation", ref="5/C02"),
 "C03": dict(text="Proved on the model of verify: norm gate and canonical-hint decoding reject before/independently of the hash comparison; acceptance iff all gates passed and c~ = H(mu || w1Encode(w1')). Tie: model-forged hash-consistent near-misses (z over the bound: reject; second accepted iteration of another signer, largest-response iteration: accept), non-canonical hint sections derived from valid signatures, random strings, NIST verify vectors; model is the judge and verdicts are asserted.",
             note="PARTIAL: the refinement of the arithmetic path to FIPS 204 ring operations (via C13) is not finished.",
             tech="Lean 4 proof (decision logic) + differential tie with model-side forgers", ref="5/C03"),
 "C05": dict(text="Proved: signature = signature_with (Sign_internal interface) applied to exactly the drawn bytes: nothing drawn in deterministic mode, 32 bytes (ML-DSA hedged, entering as rnd) or 64 bytes (Dilithium randomized, being rho') otherwise, rest of the tape untouched. Tie: byte-exact agreement code = KAT-anchored model over block-straddling message lengths, contexts, pre-hash, scripted-tape hedged/randomized modes, NIST signature vectors as external answers.",
             note="No offline ML-DSA signing oracle exists in the sandbox; ML-DSA signing is anchored on the shared body (NIST Dilithium KATs), OpenSSL KeyGen KATs and the proved framing.",
             tech="Lean 4 proof (randomness interface) + KAT-anchored differential tie", ref="5/C05"),
 "C06": dict(text="Proved: an emitted signature is the packing of an iteration in which none of the four rejection tests fired (on z, w0-cs2, ct0, hint count) with c~ = H(mu || w1Encode(w1)). Tie: every signature returned by any entry point (incl. real-RNG hedged/randomized) is decoded by the model with the secret key and the five C06 conditions evaluated numerically; the judge is validated on model-forged signatures of a test-skipping signer.",
             note="PARTIAL: identification of the tested quantities with y = z - c s1, LowBits(Ay - c s2) (ring algebra through the NTT) is evaluated per signature, not yet a theorem.",
             tech="Lean 4 proof (control flow of the iteration) + model-side judge on emitted signatures", ref="5/C06"),
 "C08": dict(text="Proved about the checked-semantics model (overflow, out-of-range index and failed conversion are faults), for all six parameter sets (C08.verify_total, mldsa_verify_total, dil_verify_total): for every public key of PUBLICKEYBYTES bytes, every message, every context and every list of bytes of ANY length offered as a signature, verification returns a boolean: wrong lengths, rejected hint sections and the norm gate answer false before any arithmetic, and on the arithmetic path the decoder ranges, NTT bounds, Montgomery products, reductions, UseHint, w1Encode and the hashes are shown free of faults by range analysis. The honest path (C08.keypair_total, signature_total, sign_iteration_total): key generation from any 32-byte seed, and signing with any generated key on any message - every iteration, rejected or accepted, within the u16 nonce budget of the code - complete with no overflow in any intermediate arithmetic, keys of exactly the standard sizes. Tie: overflow-checked and wrapping builds under catch_unwind on adversarial signatures (hint counters/indices, extreme z and t1 patterns, all lengths), identical decisions, honest keygen/sign path in the checked build, samples compared with the model.",
             note="The model's rejection samplers carry a block budget (FUEL) the Rust loops do not have; 'or the budget runs out' is the one extra outcome in the statement (probability < 2^-1000 per call). Beyond L*iterations = 2^16-1 the Rust code itself overflows its u16 nonce (the model reproduces it as a fault); that the loop ends long before is C01's (unproved) termination.",
             tech="Lean 4 proof (range analysis through decode, NTT, reductions, hints, SHAKE call shapes) + checked-build fuzz scans", ref="5/C08"),
 "C09": dict(text="Proved: the library as a machine over an RNG tape: per-operation amounts (32/32/64/0), consumption in call order over any call sequence, output = specification's function of exactly the drawn bytes. Tie (RNG tap hook): logged requests of the real code = model prediction; replaying logged bytes as a script reproduces the output; repeated draws/outputs pairwise distinct, deterministic ones identical.",
             note="That rand::thread_rng is an OS-seeded CSPRNG is trusted (rand's contract); CSPRNG quality is not modelled.",
             tech="Lean 4 proof (tape machine) + hook-based request-log tie", ref="5/C09"),
 "C10": dict(text="Proved: in the sequential machine drawing-free operations return the same result from every state (history independence). Tie: deterministic request pool executed concurrently on 1..16 threads in different orders and after randomized operations, every answer compared with the isolated one; source scan for static/thread_local/unsafe/interior mutability.",
             note="PARTIAL: the OS scheduler is not modelled; schedules are sampled.",
             tech="Lean 4 proof (state-independence) + interleaving stress tie + source scan", ref="5/C10"),
 "C15": dict(text="Theorems for all a in [0,q) and all (w1,a0): power2round/decompose contracts for both gamma2, equality with FIPS 204 Alg. 35/36/40, UseHint(MakeHint)=w1 on |a0|<2*gamma2, make_hint = spec MakeHint. Tie: exhaustive sweep of [0,q) for every copy (lvl2/3/5) and of every (w1,a0) pair, both builds.",
             note="Magic constants 11275/1025/shift amounts are in the hand-written model; the exhaustive sweep ties them to the code.",
             tech="Lean 4 proof (omega, case split on the rounding quotient) + exhaustive differential tie", ref="5/C15"),
}

checks = []
for pid in ids:
    if pid not in CLAIMS:
        continue
    c = CLAIMS[pid]
    checks.append(dict(
        property_id=pid,
        quick_cmd="./check %s --tier quick" % pid,
        thorough_cmd="./check %s --tier thorough" % pid,
        evidence_file="evidence/%s.json" % pid,
        replay_cmd_template="./check %s --replay {path}" % pid,
        engine="lean-proof+differential-tie",
        level_claimed=dict(category="proof", text=c["text"], design_ref="DESIGN.md §" + c["ref"]),
        level_note=BASE_NOTE + c["note"],
        technique=c["tech"],
    ))
na = [dict(property_id=p, reason="not claimed yet: model/theorems/tie for this property are still being built (see DESIGN.md §9 order of work); no other technique is substituted")
      for p in ids if p not in CLAIMS]
man = dict(
    version=1,
    setup_cmd="./setup.sh",
    hooks=dict(guard="dilithium_verif", enable="RUSTFLAGS='--cfg dilithium_verif' (set in harness/.cargo/config.toml)",
               baseline_off_cmd="cd /repo && cargo test --workspace --no-fail-fast --offline",
               source_commits=["2b2617b"], add_only=True),
    engines=[dict(name="lean-proof+differential-tie", path="lean/, harness/, tools/dvcheck/, check",
                  serves_properties=[c["property_id"] for c in checks],
                  kind_free_text="Lean 4 theorems about a hand-written executable model (checked-build semantics) + differential correspondence check against the Rust crate built from /repo's working tree")],
    checks=checks,
    notes="See DESIGN.md. known_findings.txt lists fixed/recorded genuine defects.",
    not_applicable=na,
)
json.dump(man, open(os.path.join(V, "MANIFEST.json"), "w"), indent=1)
print("MANIFEST.json: %d checks, %d not claimed" % (len(checks), len(na)))
