#!/usr/bin/env python3
"""key-generation seeds for which some entry of A = ExpandA(rho) meets two (or three) out-of-range 23-bit candidates in a row
before its 256th coefficient (a sampler that retries once instead of looping goes wrong exactly there)"""
import hashlib, json, sys
Q = 8380417
SETS = {"lvl2": (4, 4, False), "lvl3": (6, 5, False), "lvl5": (8, 7, False), "ml_dsa_44": (4, 4, True), "ml_dsa_65": (6, 5, True), "ml_dsa_87": (8, 7, True)}
def runs(stream):
    acc = 0; run = 0; best = 0
    for i in range(0, len(stream) - 2, 3):
        t = stream[i] | (stream[i + 1] << 8) | ((stream[i + 2] & 0x7F) << 16)
        if t < Q:
            acc += 1; run = 0
            if acc == 256:
                break
        else:
            run += 1; best = max(best, run)
    return best
res = {}
for name, (k, l, mldsa) in SETS.items():
    out = []
    for n in range(6000):
        xi = n.to_bytes(8, "little") + bytes(24)
        rho = hashlib.shake_256(xi + (bytes([k, l]) if mldsa else b"")).digest(128)[:32]
        best = 0
        for i in range(k):
            for j in range(l):
                best = max(best, runs(hashlib.shake_128(rho + bytes([j, i])).digest(168 * 6)))
        if best >= 2:
            out.append(xi.hex())
            if len(out) >= 6:
                break
    res[name] = out
    print(name, len(out), file=sys.stderr)
json.dump(res, open("/tmp/search/runs.json", "w"), indent=1)
