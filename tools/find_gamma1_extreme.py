#!/usr/bin/env python3
"""(seed64, nonce) for which ExpandMask yields a coefficient at the very ends of its range: stream field t = 0 (y = +gamma1) or
t = 2^bits - 1 (y = -gamma1 + 1); bits = 18 (gamma1 = 2^17) / 20 (gamma1 = 2^19). About 2^-10 / 2^-12 of the polynomials each."""
import hashlib, json, sys
import numpy as np
def fields(stream, bits):
    b = np.frombuffer(stream, dtype=np.uint8)
    bitsarr = np.unpackbits(b, bitorder="little")
    f = bitsarr[:256 * bits].reshape(256, bits)
    w = (1 << np.arange(bits, dtype=np.int64))
    return (f.astype(np.int64) * w).sum(axis=1)
res = {}
seed = bytes(range(64))
for bits in (18, 20):
    lo, hi = [], []
    for nonce in range(65536):
        t = fields(hashlib.shake_256(seed + bytes([nonce & 255, nonce >> 8])).digest(32 * bits), bits)
        if (t == 0).any() and len(lo) < 6: lo.append(nonce)
        if (t == (1 << bits) - 1).any() and len(hi) < 6: hi.append(nonce)
        if len(lo) >= 6 and len(hi) >= 6: break
    res[str(bits)] = {"seed": seed.hex(), "plus_gamma1": lo, "minus_gamma1_plus_1": hi}
    print(bits, lo, hi, file=sys.stderr)
json.dump(res, open("/tmp/search/g1.json", "w"), indent=1)
