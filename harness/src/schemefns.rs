// fips202.rs scripts, sign/<set>.rs and the API wrappers on the line protocol.
use crate::codec::*;
use crystals_dilithium::fips202::{self, KeccakState};
use crystals_dilithium::verif_hooks;

fn ok(s: String) -> Option<String> {
    Some(format!("ok {}", s))
}

fn run_script(is256: bool, ops: &str, input: &[u8]) -> Option<String> {
    let mut st = KeccakState::default();
    let mut pos = 0usize;
    let mut out: Vec<u8> = Vec::new();
    for op in ops.split(',') {
        let parts: Vec<&str> = op.split(':').collect();
        match (parts[0], parts.len()) {
            ("i", 1) => st.init(),
            ("a", 2) => {
                let n: usize = parts[1].parse().ok()?;
                let end = (pos + n).min(input.len());
                let sl = &input[pos.min(input.len())..end];
                if is256 { fips202::shake256_absorb(&mut st, sl, n) } else { fips202::shake128_absorb(&mut st, sl, n) }
                pos = end;
            }
            ("f", 1) => { if is256 { fips202::shake256_finalize(&mut st) } else { fips202::shake128_finalize(&mut st) } }
            ("s", 2) => {
                if !is256 { panic!("no shake128 squeeze") }
                let n: usize = parts[1].parse().ok()?;
                let mut o = vec![0xA5u8; n];
                fips202::shake256_squeeze(&mut o, n, &mut st);
                out.extend_from_slice(&o);
            }
            ("b", 2) => {
                let n: usize = parts[1].parse().ok()?;
                let r = if is256 { fips202::SHAKE256_RATE } else { fips202::SHAKE128_RATE };
                let mut o = vec![0xA5u8; n * r];
                if is256 { fips202::shake256_squeezeblocks(&mut o, n, &mut st) } else { fips202::shake128_squeezeblocks(&mut o, n, &mut st) }
                out.extend_from_slice(&o);
            }
            ("o", 2) => {
                if !is256 { panic!("no shake128 absorb_once") }
                let n: usize = parts[1].parse().ok()?;
                let end = (pos + n).min(input.len());
                let sl = &input[pos.min(input.len())..end];
                fips202::shake256_absorb_once(&mut st, sl, n);
                pos = end;
            }
            _ => return None,
        }
    }
    ok(hex(&out))
}

pub fn fips_fn(f: &str, a: &[&str]) -> Option<String> {
    match (f, a.len()) {
        // the two public byte-order helpers (little endian); buffers longer than 8 bytes: only the first 8 are read / written
        ("load64", 1) => { let b = unhex(a[0])?; ok(fips202::load64(&b).to_string()) }
        ("store64", 2) => {
            let u: u64 = a[0].parse().ok()?; let extra: usize = a[1].parse().ok()?;
            if extra > 64 { return None; }
            let mut o = vec![next_fill(); 8 + extra]; let fill = o[0];
            fips202::store64(&mut o, u);
            if o[8..].iter().any(|&x| x != fill) { return Some("ok wrote-beyond-8-bytes".to_string()); }
            ok(hex(&o[..8]))
        }
        ("shake256_script", 2) => { let inp = unhex(a[1])?; run_script(true, a[0], &inp) }
        ("shake128_script", 2) => { let inp = unhex(a[1])?; run_script(false, a[0], &inp) }
        ("shake256", 2) => {
            let n: usize = a[0].parse().ok()?; let inp = unhex(a[1])?;
            let mut o = vec![0xA5u8; n]; fips202::shake256(&mut o, n, &inp, inp.len()); ok(hex(&o))
        }
        ("shake128_stream_init", 3) => {
            let seed = unhex(a[0])?; let nonce: u16 = a[1].parse().ok()?; let nb: usize = a[2].parse().ok()?;
            let mut st = KeccakState::default(); fips202::shake128_stream_init(&mut st, &seed, nonce);
            let mut o = vec![0xA5u8; nb * fips202::SHAKE128_RATE]; fips202::shake128_squeezeblocks(&mut o, nb, &mut st); ok(hex(&o))
        }
        ("shake256_stream_init", 3) => {
            let seed = unhex(a[0])?; let nonce: u16 = a[1].parse().ok()?; let nb: usize = a[2].parse().ok()?;
            let mut st = KeccakState::default(); fips202::shake256_stream_init(&mut st, &seed, nonce);
            let mut o = vec![0xA5u8; nb * fips202::SHAKE256_RATE]; fips202::shake256_squeezeblocks(&mut o, nb, &mut st); ok(hex(&o))
        }
        ("keccakf1600_statepermute", 1) => {
            let v: Option<Vec<u64>> = a[0].split(',').map(|x| x.parse::<u64>().ok()).collect();
            let mut v = v?; if v.len() != 25 { return None; }
            fips202::keccakf1600_statepermute(&mut v);
            ok(v.iter().map(|x| x.to_string()).collect::<Vec<_>>().join(","))
        }
        _ => None,
    }
}

fn opt_bytes(s: &str) -> Option<Option<Vec<u8>>> {
    if s == "none" { Some(None) } else { unhex(s).map(Some) }
}

/// the tape argument: hex = scripted RNG bytes, `real` = the real thread_rng (the tap only logs)
fn tape_arg(s: &str) -> Option<Option<Vec<u8>>> {
    if s == "real" { Some(None) } else { unhex(s).map(Some) }
}

/// run `f` with the RNG script `tape` installed on this thread (empty tape = no bytes available)
fn with_tape<T>(tape: &Option<Vec<u8>>, f: impl FnOnce() -> T) -> T {
    verif_hooks::set_script(tape.clone());
    if tape.is_some() { let _ = verif_hooks::take_log(); }
    let r = std::panic::catch_unwind(std::panic::AssertUnwindSafe(f));
    verif_hooks::set_script(None);
    match r { Ok(v) => v, Err(e) => std::panic::resume_unwind(e) }
}

/// Previous contents of the caller's output buffers: a different byte on every call (the answer must not depend on it).
static FILL: std::sync::atomic::AtomicUsize = std::sync::atomic::AtomicUsize::new(0);
pub fn next_fill() -> u8 {
    let n = FILL.fetch_add(1, std::sync::atomic::Ordering::Relaxed);
    0xA5u8 ^ (n.wrapping_mul(0x3B) as u8)
}

macro_rules! sign_set {
    ($fname:ident, $set:ident) => {
        pub fn $fname(f: &str, a: &[&str]) -> Option<String> {
            use crystals_dilithium::sign::$set as sg;
            use crystals_dilithium::params::$set as pp;
            match (f, a.len()) {
                ("keypair", 2) => {
                    let seed = opt_bytes(a[0])?; let tape = tape_arg(a[1])?;
                    let mut pk = vec![next_fill(); pp::PUBLICKEYBYTES]; let mut sk = vec![next_fill(); pp::SECRETKEYBYTES];
                    with_tape(&tape, || sg::keypair(&mut pk, &mut sk, seed.as_deref()));
                    ok(format!("{} {}", hex(&pk), hex(&sk)))
                }
                ("signature", 4) => {
                    let msg = unhex(a[0])?; let sk = unhex(a[1])?; let rnd = a[2] == "1"; let tape = tape_arg(a[3])?;
                    let mut sig = vec![next_fill(); pp::SIGNBYTES];
                    with_tape(&tape, || sg::signature(&mut sig, &msg, &sk, rnd));
                    ok(hex(&sig))
                }
                ("verify", 3) => {
                    let sig = unhex(a[0])?; let msg = unhex(a[1])?; let pk = unhex(a[2])?;
                    ok(sg::verify(&sig, &msg, &pk).to_string())
                }
                // the documented domain of the raw entry points: buffers of AT LEAST the standard size.
                // keypair_cap <extra> <seed> <tape>: pk / sk buffers longer by <extra>; answers the leading standard-size parts
                ("keypair_cap", 3) => {
                    // (a negative <extra>: buffers that are too short - the call is expected to be refused)
                    let extra: isize = a[0].parse().ok()?; let seed = opt_bytes(a[1])?; let tape = tape_arg(a[2])?;
                    if extra < -32 || extra > 4096 { return None; }
                    let mut pk = vec![next_fill(); (pp::PUBLICKEYBYTES as isize + extra) as usize]; let mut sk = vec![next_fill(); (pp::SECRETKEYBYTES as isize + extra) as usize];
                    with_tape(&tape, || sg::keypair(&mut pk, &mut sk, seed.as_deref()));
                    ok(format!("{} {}", hex(&pk[..pp::PUBLICKEYBYTES.min(pk.len())]), hex(&sk[..pp::SECRETKEYBYTES.min(sk.len())])))
                }
                // signature_cap <extra> <msg> <sk> <rnd> <tape>: sig buffer longer by <extra>; answers its first SIGNBYTES bytes
                ("signature_cap", 5) => {
                    let extra: isize = a[0].parse().ok()?; let msg = unhex(a[1])?; let sk = unhex(a[2])?; let rnd = a[3] == "1"; let tape = tape_arg(a[4])?;
                    if extra < -32 || extra > 4096 { return None; }
                    let mut sig = vec![next_fill(); (pp::SIGNBYTES as isize + extra) as usize];
                    with_tape(&tape, || sg::signature(&mut sig, &msg, &sk, rnd));
                    ok(hex(&sig[..pp::SIGNBYTES.min(sig.len())]))
                }
                _ => None,
            }
        }
    };
}
sign_set!(sign_lvl2, lvl2);
sign_set!(sign_lvl3, lvl3);
sign_set!(sign_lvl5, lvl5);
sign_set!(sign_ml_dsa_44, ml_dsa_44);
sign_set!(sign_ml_dsa_65, ml_dsa_65);
sign_set!(sign_ml_dsa_87, ml_dsa_87);

pub fn sign_fn(set: &str, f: &str, a: &[&str]) -> Option<String> {
    match set {
        "lvl2" => sign_lvl2(f, a), "lvl3" => sign_lvl3(f, a), "lvl5" => sign_lvl5(f, a),
        "ml_dsa_44" => sign_ml_dsa_44(f, a), "ml_dsa_65" => sign_ml_dsa_65(f, a), "ml_dsa_87" => sign_ml_dsa_87(f, a),
        _ => None,
    }
}

fn fmt_sig(s: Option<&[u8]>) -> String {
    match s { Some(b) => hex(b), None => "none".to_string() }
}

macro_rules! api_common {
    ($api:ident) => {
        fn common(f: &str, a: &[&str]) -> Option<Option<String>> {
            use crystals_dilithium::$api as api;
            Some(match (f, a.len()) {
                ("Keypair::generate", 2) => {
                    let seed = opt_bytes(a[0])?; let tape = tape_arg(a[1])?;
                    let kp = with_tape(&tape, || api::Keypair::generate(seed.as_deref()));
                    ok(format!("{} {}", hex(&kp.secret.to_bytes()), hex(&kp.public.to_bytes())))
                }
                ("Keypair::roundtrip", 1) => { let b = unhex(a[0])?; let kp = api::Keypair::from_bytes(&b); ok(hex(&kp.to_bytes())) }
                ("SecretKey::roundtrip", 1) => { let b = unhex(a[0])?; let k = api::SecretKey::from_bytes(&b); ok(hex(&k.to_bytes())) }
                ("PublicKey::roundtrip", 1) => { let b = unhex(a[0])?; let k = api::PublicKey::from_bytes(&b); ok(hex(&k.to_bytes())) }
                // every length 0..=max: which byte strings does from_bytes accept (not panic on)?  answer: ok <accepted lengths | ->
                ("Keypair::accepted_lengths", 1) | ("SecretKey::accepted_lengths", 1) | ("PublicKey::accepted_lengths", 1) => {
                    let max: usize = a[0].parse().ok()?;
                    let mut acc: Vec<String> = Vec::new();
                    let buf: Vec<u8> = (0..max).map(|i| (i as u32).wrapping_mul(2654435761).to_le_bytes()[1]).collect();
                    for n in 0..=max {
                        let b = &buf[..n];
                        let r = std::panic::catch_unwind(std::panic::AssertUnwindSafe(|| {
                            if f.starts_with("Keypair") { let _ = api::Keypair::from_bytes(b); }
                            else if f.starts_with("SecretKey") { let _ = api::SecretKey::from_bytes(b); }
                            else { let _ = api::PublicKey::from_bytes(b); }
                        }));
                        if r.is_ok() { acc.push(n.to_string()); }
                    }
                    ok(if acc.is_empty() { "-".to_string() } else { acc.join(",") })
                }
                _ => return None,
            })
        }
    };
}

macro_rules! api_dil {
    ($fname:ident, $api:ident) => {
        pub fn $fname(f: &str, a: &[&str]) -> Option<String> {
            use crystals_dilithium::$api as api;
            api_common!($api);
            if let Some(r) = common(f, a) { return r; }
            match (f, a.len()) {
                ("SecretKey::sign", 5) => {
                    let sk = unhex(a[0])?; let msg = unhex(a[1])?;
                    let k = api::SecretKey::from_bytes(&sk);
                    let s = k.sign(&msg); ok(fmt_sig(Some(&s)))
                }
                ("PublicKey::verify", 4) => {
                    let pk = unhex(a[0])?; let msg = unhex(a[1])?; let sig = unhex(a[2])?;
                    let k = api::PublicKey::from_bytes(&pk);
                    ok(k.verify(&msg, &sig).to_string())
                }
                ("PublicKey::verify_lens", 4) => {
                    let pk = unhex(a[0])?; let sig = unhex(a[1])?;
                    let k = api::PublicKey::from_bytes(&pk);
                    let (mut calls, mut panics, mut acc, mut first) = (0usize, 0usize, 0usize, String::new());
                    for ml in a[2].split(',') {
                        let ml: usize = ml.parse().ok()?; let msg: Vec<u8> = (0..ml).map(|i| (i * 7 + ml) as u8).collect();
                        calls += 1;
                        match std::panic::catch_unwind(std::panic::AssertUnwindSafe(|| k.verify(&msg, &sig))) {
                            Ok(true) => acc += 1, Ok(false) => {},
                            Err(_) => { panics += 1; if first.is_empty() { first = format!("msglen={}", ml); } }
                        }
                    }
                    ok(format!("calls={} accepted={} panics={} first={}", calls, acc, panics, if first.is_empty() { "-" } else { &first }))
                }
                ("SecretKey::sign_lens", 3) => {
                    let sk = unhex(a[0])?;
                    let k = api::SecretKey::from_bytes(&sk);
                    let (mut calls, mut panics, mut first) = (0usize, 0usize, String::new());
                    for ml in a[1].split(',') {
                        let ml: usize = ml.parse().ok()?; let msg: Vec<u8> = (0..ml).map(|i| (i * 7 + ml) as u8).collect();
                        calls += 1;
                        if std::panic::catch_unwind(std::panic::AssertUnwindSafe(|| k.sign(&msg))).is_err() {
                            panics += 1; if first.is_empty() { first = format!("msglen={}", ml); }
                        }
                    }
                    ok(format!("calls={} none=0 panics={} first={}", calls, panics, if first.is_empty() { "-" } else { &first }))
                }
                // the Keypair entry points (first argument: sk || pk as Keypair::to_bytes gives them)
                ("Keypair::sign", 5) => {
                    let kpb = unhex(a[0])?; let msg = unhex(a[1])?;
                    let k = api::Keypair::from_bytes(&kpb);
                    let s = k.sign(&msg); ok(fmt_sig(Some(&s)))
                }
                ("Keypair::verify", 4) => {
                    let kpb = unhex(a[0])?; let msg = unhex(a[1])?; let sig = unhex(a[2])?;
                    let k = api::Keypair::from_bytes(&kpb);
                    ok(k.verify(&msg, &sig).to_string())
                }
                _ => None,
            }
        }
    };
}

fn ph(s: &str) -> Option<crystals_dilithium::PH> {
    match s { "sha256" => Some(crystals_dilithium::PH::SHA256), "sha512" => Some(crystals_dilithium::PH::SHA512), _ => None }
}

macro_rules! api_mldsa {
    ($fname:ident, $api:ident) => {
        pub fn $fname(f: &str, a: &[&str]) -> Option<String> {
            use crystals_dilithium::$api as api;
            api_common!($api);
            if let Some(r) = common(f, a) { return r; }
            match (f, a.len()) {
                // SecretKey::sign sk msg ctx hedged tape
                ("SecretKey::sign", 5) => {
                    let sk = unhex(a[0])?; let msg = unhex(a[1])?; let ctx = opt_bytes(a[2])?; let hedged = a[3] == "1"; let tape = tape_arg(a[4])?;
                    let k = api::SecretKey::from_bytes(&sk);
                    let s = with_tape(&tape, || k.sign(&msg, ctx.as_deref(), hedged));
                    ok(fmt_sig(s.as_ref().map(|x| &x[..])))
                }
                // SecretKey::prehash_sign sk MSG ctx hedged ph tape   (the harness passes the message; the model gets the digest)
                ("SecretKey::prehash_sign", 7) => {
                    let sk = unhex(a[0])?; let msg = unhex(a[1])?; let ctx = opt_bytes(a[2])?; let hedged = a[3] == "1"; let p = ph(a[4])?; let tape = tape_arg(a[5])?;
                    let k = api::SecretKey::from_bytes(&sk);
                    let s = with_tape(&tape, || k.prehash_sign(&msg, ctx.as_deref(), hedged, p));
                    ok(fmt_sig(s.as_ref().map(|x| &x[..])))
                }
                ("PublicKey::verify", 4) => {
                    let pk = unhex(a[0])?; let msg = unhex(a[1])?; let sig = unhex(a[2])?; let ctx = opt_bytes(a[3])?;
                    let k = api::PublicKey::from_bytes(&pk);
                    ok(k.verify(&msg, &sig, ctx.as_deref()).to_string())
                }
                // C08: PublicKey::verify_lens pk sig <msg lengths> <ctx lengths, 'n' = None>: every combination, each call under
                // catch_unwind; SecretKey::sign_lens sk <msg lengths> <ctx lengths>: deterministic signing of every combination
                ("PublicKey::verify_lens", 4) => {
                    let pk = unhex(a[0])?; let sig = unhex(a[1])?;
                    let k = api::PublicKey::from_bytes(&pk);
                    let (mut calls, mut panics, mut acc, mut first) = (0usize, 0usize, 0usize, String::new());
                    for ml in a[2].split(',') { for cl in a[3].split(',') {
                        let ml: usize = ml.parse().ok()?; let msg: Vec<u8> = (0..ml).map(|i| (i * 7 + ml) as u8).collect();
                        let ctx: Option<Vec<u8>> = if cl == "n" { None } else { Some(vec![0x63u8; cl.parse().ok()?]) };
                        calls += 1;
                        match std::panic::catch_unwind(std::panic::AssertUnwindSafe(|| k.verify(&msg, &sig, ctx.as_deref()))) {
                            Ok(true) => acc += 1, Ok(false) => {},
                            Err(_) => { panics += 1; if first.is_empty() { first = format!("msglen={},ctxlen={}", ml, cl); } }
                        }
                    } }
                    ok(format!("calls={} accepted={} panics={} first={}", calls, acc, panics, if first.is_empty() { "-" } else { &first }))
                }
                ("SecretKey::sign_lens", 3) => {
                    let sk = unhex(a[0])?;
                    let k = api::SecretKey::from_bytes(&sk);
                    let (mut calls, mut panics, mut none, mut first) = (0usize, 0usize, 0usize, String::new());
                    for ml in a[1].split(',') { for cl in a[2].split(',') {
                        let ml: usize = ml.parse().ok()?; let msg: Vec<u8> = (0..ml).map(|i| (i * 7 + ml) as u8).collect();
                        let ctx: Option<Vec<u8>> = if cl == "n" { None } else { Some(vec![0x63u8; cl.parse().ok()?]) };
                        calls += 1;
                        match std::panic::catch_unwind(std::panic::AssertUnwindSafe(|| k.sign(&msg, ctx.as_deref(), false))) {
                            Ok(Some(_)) => {}, Ok(None) => none += 1,
                            Err(_) => { panics += 1; if first.is_empty() { first = format!("msglen={},ctxlen={}", ml, cl); } }
                        }
                    } }
                    ok(format!("calls={} none={} panics={} first={}", calls, none, panics, if first.is_empty() { "-" } else { &first }))
                }
                // C10: several deterministic calls on ONE key object (state kept inside a container would show here)
                // SecretKey::sign_reuse sk msg1 ctx1 msg2 ctx2 -> the two signatures
                ("SecretKey::sign_reuse", 5) => {
                    let sk = unhex(a[0])?; let m1 = unhex(a[1])?; let c1 = opt_bytes(a[2])?; let m2 = unhex(a[3])?; let c2 = opt_bytes(a[4])?;
                    let k = api::SecretKey::from_bytes(&sk);
                    let s1 = k.sign(&m1, c1.as_deref(), false);
                    let s2 = k.sign(&m2, c2.as_deref(), false);
                    ok(format!("{} {}", fmt_sig(s1.as_ref().map(|x| &x[..])), fmt_sig(s2.as_ref().map(|x| &x[..]))))
                }
                // PublicKey::verify_reuse pk msg1 sig1 ctx1 msg2 sig2 ctx2 -> the two decisions
                ("PublicKey::verify_reuse", 7) => {
                    let pk = unhex(a[0])?; let m1 = unhex(a[1])?; let g1 = unhex(a[2])?; let c1 = opt_bytes(a[3])?;
                    let m2 = unhex(a[4])?; let g2 = unhex(a[5])?; let c2 = opt_bytes(a[6])?;
                    let k = api::PublicKey::from_bytes(&pk);
                    let b1 = k.verify(&m1, &g1, c1.as_deref());
                    let b2 = k.verify(&m2, &g2, c2.as_deref());
                    ok(format!("{} {}", b1, b2))
                }
                ("PublicKey::prehash_verify", 6) => {
                    let pk = unhex(a[0])?; let msg = unhex(a[1])?; let sig = unhex(a[2])?; let ctx = opt_bytes(a[3])?; let p = ph(a[4])?;
                    let k = api::PublicKey::from_bytes(&pk);
                    ok(k.prehash_verify(&msg, &sig, ctx.as_deref(), p).to_string())
                }
                // the Keypair entry points (first argument: sk || pk as Keypair::to_bytes gives them)
                ("Keypair::sign", 5) => {
                    let kpb = unhex(a[0])?; let msg = unhex(a[1])?; let ctx = opt_bytes(a[2])?; let hedged = a[3] == "1"; let tape = tape_arg(a[4])?;
                    let k = api::Keypair::from_bytes(&kpb);
                    let s = with_tape(&tape, || k.sign(&msg, ctx.as_deref(), hedged));
                    ok(fmt_sig(s.as_ref().map(|x| &x[..])))
                }
                ("Keypair::prehash_sign", 7) => {
                    let kpb = unhex(a[0])?; let msg = unhex(a[1])?; let ctx = opt_bytes(a[2])?; let hedged = a[3] == "1"; let p = ph(a[4])?; let tape = tape_arg(a[5])?;
                    let k = api::Keypair::from_bytes(&kpb);
                    let s = with_tape(&tape, || k.prehash_sign(&msg, ctx.as_deref(), hedged, p));
                    ok(fmt_sig(s.as_ref().map(|x| &x[..])))
                }
                ("Keypair::verify", 4) => {
                    let kpb = unhex(a[0])?; let msg = unhex(a[1])?; let sig = unhex(a[2])?; let ctx = opt_bytes(a[3])?;
                    let k = api::Keypair::from_bytes(&kpb);
                    ok(k.verify(&msg, &sig, ctx.as_deref()).to_string())
                }
                ("Keypair::prehash_verify", 6) => {
                    let kpb = unhex(a[0])?; let msg = unhex(a[1])?; let sig = unhex(a[2])?; let ctx = opt_bytes(a[3])?; let p = ph(a[4])?;
                    let k = api::Keypair::from_bytes(&kpb);
                    ok(k.prehash_verify(&msg, &sig, ctx.as_deref(), p).to_string())
                }
                _ => None,
            }
        }
    };
}

api_dil!(api_dilithium2, dilithium2);
api_dil!(api_dilithium3, dilithium3);
api_dil!(api_dilithium5, dilithium5);
api_mldsa!(api_ml_dsa_44, ml_dsa_44);
api_mldsa!(api_ml_dsa_65, ml_dsa_65);
api_mldsa!(api_ml_dsa_87, ml_dsa_87);

pub fn api_fn(api: &str, f: &str, a: &[&str]) -> Option<String> {
    match api {
        "dilithium2" => api_dilithium2(f, a), "dilithium3" => api_dilithium3(f, a), "dilithium5" => api_dilithium5(f, a),
        "ml_dsa_44" => api_ml_dsa_44(f, a), "ml_dsa_65" => api_ml_dsa_65(f, a), "ml_dsa_87" => api_ml_dsa_87(f, a),
        _ => None,
    }
}
