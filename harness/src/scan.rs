// Implementation-side scans (requests prefixed with `@impl`): exhaustive alteration scans for C02, totality
// scans for C08, RNG request log for C09, interleaving stress for C10.  These evaluate the property itself on
// the implementation; the model is not involved.
use crate::codec::*;
use crystals_dilithium::{sign, verif_hooks};
use std::panic::{self, AssertUnwindSafe};

type VerifyFn = fn(&[u8], &[u8], &[u8]) -> bool;
type SignFn = fn(&mut [u8], &[u8], &[u8], bool);
type KeyFn = fn(&mut [u8], &mut [u8], Option<&[u8]>);

pub struct SetFns { pub verify: VerifyFn, pub sign: SignFn, pub keypair: KeyFn, pub pk: usize, pub sk: usize, pub sig: usize, pub omega: usize, pub k: usize, pub ctilde: usize }

pub fn set_fns(s: &str) -> Option<SetFns> {
    use crystals_dilithium::params as pp;
    Some(match s {
        "lvl2" => SetFns { verify: sign::lvl2::verify, sign: sign::lvl2::signature, keypair: sign::lvl2::keypair, pk: pp::lvl2::PUBLICKEYBYTES, sk: pp::lvl2::SECRETKEYBYTES, sig: pp::lvl2::SIGNBYTES, omega: pp::lvl2::OMEGA, k: pp::lvl2::K, ctilde: 32 },
        "lvl3" => SetFns { verify: sign::lvl3::verify, sign: sign::lvl3::signature, keypair: sign::lvl3::keypair, pk: pp::lvl3::PUBLICKEYBYTES, sk: pp::lvl3::SECRETKEYBYTES, sig: pp::lvl3::SIGNBYTES, omega: pp::lvl3::OMEGA, k: pp::lvl3::K, ctilde: 32 },
        "lvl5" => SetFns { verify: sign::lvl5::verify, sign: sign::lvl5::signature, keypair: sign::lvl5::keypair, pk: pp::lvl5::PUBLICKEYBYTES, sk: pp::lvl5::SECRETKEYBYTES, sig: pp::lvl5::SIGNBYTES, omega: pp::lvl5::OMEGA, k: pp::lvl5::K, ctilde: 32 },
        "ml_dsa_44" => SetFns { verify: sign::ml_dsa_44::verify, sign: sign::ml_dsa_44::signature, keypair: sign::ml_dsa_44::keypair, pk: pp::ml_dsa_44::PUBLICKEYBYTES, sk: pp::ml_dsa_44::SECRETKEYBYTES, sig: pp::ml_dsa_44::SIGNBYTES, omega: pp::ml_dsa_44::OMEGA, k: pp::ml_dsa_44::K, ctilde: pp::ml_dsa_44::C_DASH_BYTES },
        "ml_dsa_65" => SetFns { verify: sign::ml_dsa_65::verify, sign: sign::ml_dsa_65::signature, keypair: sign::ml_dsa_65::keypair, pk: pp::ml_dsa_65::PUBLICKEYBYTES, sk: pp::ml_dsa_65::SECRETKEYBYTES, sig: pp::ml_dsa_65::SIGNBYTES, omega: pp::ml_dsa_65::OMEGA, k: pp::ml_dsa_65::K, ctilde: pp::ml_dsa_65::C_DASH_BYTES },
        "ml_dsa_87" => SetFns { verify: sign::ml_dsa_87::verify, sign: sign::ml_dsa_87::signature, keypair: sign::ml_dsa_87::keypair, pk: pp::ml_dsa_87::PUBLICKEYBYTES, sk: pp::ml_dsa_87::SECRETKEYBYTES, sig: pp::ml_dsa_87::SIGNBYTES, omega: pp::ml_dsa_87::OMEGA, k: pp::ml_dsa_87::K, ctilde: pp::ml_dsa_87::C_DASH_BYTES },
        _ => return None,
    })
}

/// outcome of one verify call: Some(bool) or None for a panic
fn try_verify(f: VerifyFn, sig: &[u8], msg: &[u8], pk: &[u8]) -> Option<bool> {
    panic::catch_unwind(AssertUnwindSafe(|| f(sig, msg, pk))).ok()
}

struct Tally { calls: usize, accepted: usize, panics: usize, first: Option<String> }
impl Tally {
    fn new() -> Self { Tally { calls: 0, accepted: 0, panics: 0, first: None } }
    fn add(&mut self, r: Option<bool>, what: impl FnOnce() -> String) {
        self.calls += 1;
        match r {
            Some(false) => {}
            Some(true) => { self.accepted += 1; if self.first.is_none() { self.first = Some(format!("accepted:{}", what())); } }
            None => { self.panics += 1; if self.first.is_none() { self.first = Some(format!("panic:{}", what())); } }
        }
    }
    fn out(&self) -> String {
        format!("ok calls={} accepted={} panics={} first={}", self.calls, self.accepted, self.panics, self.first.clone().unwrap_or("-".to_string()))
    }
}

// xorshift for the random scans (deterministic from the seed given in the request)
struct Rng(u64);
impl Rng {
    fn next(&mut self) -> u64 { let mut x = self.0; x ^= x << 13; x ^= x >> 7; x ^= x << 17; self.0 = x; x }
    fn byte(&mut self) -> u8 { (self.next() >> 24) as u8 }
    fn below(&mut self, n: usize) -> usize { (self.next() % (n as u64)) as usize }
}

pub fn scan_fn(f: &str, a: &[&str]) -> Option<String> {
    match (f, a.len()) {
        // every single-bit flip of the signature
        ("sigflips", 4) => {
            let s = set_fns(a[0])?; let sig = unhex(a[1])?; let msg = unhex(a[2])?; let pk = unhex(a[3])?;
            let mut t = Tally::new();
            let mut w = sig.clone();
            for i in 0..sig.len() * 8 {
                w[i / 8] ^= 1 << (i % 8);
                t.add(try_verify(s.verify, &w, &msg, &pk), || format!("bit{}", i));
                w[i / 8] ^= 1 << (i % 8);
            }
            Some(t.out())
        }
        // every truncation of the signature, extensions by 1..8 bytes
        ("siglens", 4) => {
            let s = set_fns(a[0])?; let sig = unhex(a[1])?; let msg = unhex(a[2])?; let pk = unhex(a[3])?;
            let mut t = Tally::new();
            for n in 0..sig.len() {
                t.add(try_verify(s.verify, &sig[..n], &msg, &pk), || format!("len{}", n));
            }
            for e in 1..=8usize {
                let mut w = sig.clone(); w.extend(std::iter::repeat(0u8).take(e));
                t.add(try_verify(s.verify, &w, &msg, &pk), || format!("len+{}", e));
            }
            Some(t.out())
        }
        // every single-bit flip, every proper prefix and two one-byte extensions of the message
        ("msgalts", 4) => {
            let s = set_fns(a[0])?; let sig = unhex(a[1])?; let msg = unhex(a[2])?; let pk = unhex(a[3])?;
            let mut t = Tally::new();
            let mut w = msg.clone();
            for i in 0..msg.len() * 8 {
                w[i / 8] ^= 1 << (i % 8);
                t.add(try_verify(s.verify, &sig, &w, &pk), || format!("msgbit{}", i));
                w[i / 8] ^= 1 << (i % 8);
            }
            for n in 0..msg.len() {
                t.add(try_verify(s.verify, &sig, &msg[..n], &pk), || format!("msglen{}", n));
            }
            for b in [0u8, 1u8, 0xffu8] {
                let mut w = msg.clone(); w.push(b);
                t.add(try_verify(s.verify, &sig, &w, &pk), || format!("msg+{:02x}", b));
            }
            Some(t.out())
        }
        // C08: adversarial byte strings offered as signatures (never panic); `base` = a valid signature or `-`
        ("fuzzverify", 5) => {
            let s = set_fns(a[0])?; let seed: u64 = a[1].parse().ok()?; let n: usize = a[2].parse().ok()?;
            let pk = unhex(a[3])?; let base = unhex(a[4])?;
            let mut r = Rng(seed | 1);
            let mut t = Tally::new();
            let msg = b"totality".to_vec();
            let hoff = s.sig - s.omega - s.k;
            for it in 0..n {
                let mut w: Vec<u8> = if base.len() == s.sig && it % 2 == 0 { base.clone() } else { (0..s.sig).map(|_| r.byte()).collect() };
                match it % 8 {
                    0 => { for j in hoff..s.sig { w[j] = 255; } }
                    1 => { for j in 0..s.k { w[hoff + s.omega + j] = (s.omega - j) as u8; } }                 // decreasing counters
                    2 => { for j in 0..s.k { w[hoff + s.omega + j] = (s.omega + 1 + r.below(100)) as u8; } }  // counters above omega
                    3 => { for j in s.ctilde..hoff { w[j] = 0; } }                                            // z all-zero bits (z = gamma1)
                    4 => { for j in s.ctilde..hoff { w[j] = 255; } }                                          // z all-one bits
                    5 => { let c = r.below(s.omega + 1); for j in 0..s.k { w[hoff + s.omega + j] = c as u8; } for j in 0..s.omega { w[hoff + j] = r.byte(); } }
                    6 => { let mut c = 0usize; for j in 0..s.k { c = (c + r.below(4)).min(s.omega); w[hoff + s.omega + j] = c as u8; } let mut v: Vec<u8> = (0..s.omega).map(|_| r.byte()).collect(); v.sort(); for j in 0..s.omega { w[hoff + j] = v[j]; } }
                    _ => {}
                }
                if it % 16 >= 8 && it % 8 != 0 {
                    // well-formed (strictly increasing) index area under the crafted counters, so that the decoder's loops run to their bounds
                    for j in 0..s.omega { w[hoff + j] = j as u8; }
                }
                if it % 16 == 15 {
                    // increasing counters above omega continuing the increasing run of the index area
                    for j in 0..s.omega { w[hoff + j] = j as u8; }
                    let start = s.omega + 1 + r.below(20);
                    for j in 0..s.k { w[hoff + s.omega + j] = (start + j).min(255) as u8; }
                }
                if it % 16 == 7 {
                    for j in 0..s.omega { w[hoff + j] = j as u8; }
                    let a = r.below(s.omega + 1); let b = r.below(a + 1);
                    w[hoff + s.omega] = a as u8; w[hoff + s.omega + 1] = b as u8;      // decreasing pair after a well-formed first polynomial
                    for j in 2..s.k { w[hoff + s.omega + j] = a as u8; }
                }
                if it % 16 == 3 || it % 16 == 11 {
                    // a two-entry row whose index bytes sit at the ends of the byte range: (255, x), (x, 255), (0, 0)
                    let pairs = [(255u8, 0u8), (255, 7), (255, 254), (255, 255), (254, 255), (0, 0), (0, 255), (128, 127)];
                    let (p0, p1) = pairs[r.below(pairs.len())];
                    let row = r.below(s.k);
                    for j in 0..s.omega { w[hoff + j] = 0; }
                    w[hoff] = p0; w[hoff + 1] = p1;
                    for j in 0..s.k { w[hoff + s.omega + j] = if j < row { 0 } else { 2 }; }
                }
                let pkv: Vec<u8> = if it % 5 == 4 { (0..s.pk).map(|i| if i < 32 { r.byte() } else { 255 }).collect() } else { pk.clone() };
                t.add(try_verify(s.verify, &w, &msg, &pkv), || format!("case{}:{}", it % 8, hex(&w)));
            }
            // every length 0..SIGNBYTES+8 of random bytes
            let long: Vec<u8> = (0..s.sig + 8).map(|_| r.byte()).collect();
            for n in 0..=s.sig + 8 {
                if n % 7 == 0 || n + 10 > s.sig {
                    t.add(try_verify(s.verify, &long[..n], &msg, &pk), || format!("len{}", n));
                }
            }
            Some(t.out())
        }
        // C08 honest path: keygen + sign must not panic (overflow-checked build), signature must verify
        ("honest", 3) => {
            let s = set_fns(a[0])?; let seed = unhex(a[1])?; let msg = unhex(a[2])?;
            let r = panic::catch_unwind(AssertUnwindSafe(|| {
                let mut pk = vec![0xA5u8; s.pk]; let mut sk = vec![0xA5u8; s.sk]; let mut sig = vec![0xA5u8; s.sig];
                (s.keypair)(&mut pk, &mut sk, Some(&seed));
                (s.sign)(&mut sig, &msg, &sk, false);
                (s.verify)(&sig, &msg, &pk)
            }));
            Some(match r { Ok(v) => format!("ok {}", v), Err(_) => "fault".to_string() })
        }
        // C01: many deterministic signatures under one generated key: each must be produced (the call returns) and verify;
        // answer: ok n=<count> bad=<first failing message index or -> ; a signing call that never returns shows as a timeout of the process
        // C03: search (deterministic signing of messages 0, 1, 2, ...) for an honest signature in which some hint row with at
        // least two entries ends at position 255 (about one ML-DSA-87 signature in four; rarer for the smaller sets)
        // answer: ok <msg hex> <sig hex> <row> | ok none
        ("findsig255", 3) => {
            let s = set_fns(a[0])?; let sk = unhex(a[1])?; let n: usize = a[2].parse().ok()?;
            let hoff = s.sig - s.omega - s.k;
            for i in 0..n {
                let msg = (i as u32).to_le_bytes().to_vec();
                let mut sig = vec![0u8; s.sig];
                (s.sign)(&mut sig, &msg, &sk, false);
                let mut start = 0usize;
                for row in 0..s.k {
                    let end = sig[hoff + s.omega + row] as usize;
                    if end >= start + 2 && end <= s.omega && sig[hoff + end - 1] == 255 {
                        return Some(format!("ok {} {} {}", hex(&msg), hex(&sig), row));
                    }
                    start = end;
                }
            }
            Some("ok none".to_string())
        }
        // C02 / C03: search for an honest signature with an EMPTY hint row i >= 1 after a non-empty prefix (its counter equals
        // the previous one, which is > 0): about 1 % of ML-DSA-65 / Dilithium3 signatures, rarer or absent for the other sets
        ("findsigempty", 3) => {
            let s = set_fns(a[0])?; let sk = unhex(a[1])?; let n: usize = a[2].parse().ok()?;
            let hoff = s.sig - s.omega - s.k;
            for i in 0..n {
                let msg = (i as u32).to_le_bytes().to_vec();
                let mut sig = vec![0u8; s.sig];
                (s.sign)(&mut sig, &msg, &sk, false);
                for row in 1..s.k {
                    let prev = sig[hoff + s.omega + row - 1]; let cur = sig[hoff + s.omega + row];
                    if cur == prev && prev > 0 {
                        return Some(format!("ok {} {} {}", hex(&msg), hex(&sig), row));
                    }
                }
            }
            Some("ok none".to_string())
        }
        ("judgemany", 4) => crate::judge::judgemany(a),
        ("signmany", 3) => {
            let s = set_fns(a[0])?; let seed = unhex(a[1])?; let count: usize = a[2].parse().ok()?;
            let mut pk = vec![0xA5u8; s.pk]; let mut sk = vec![0xA5u8; s.sk];
            (s.keypair)(&mut pk, &mut sk, Some(&seed));
            let mut bad: Option<String> = None;
            for i in 0..count {
                let msg = (i as u32).to_le_bytes().to_vec();
                let r = panic::catch_unwind(AssertUnwindSafe(|| {
                    let mut sig = vec![0xA5u8; s.sig];
                    (s.sign)(&mut sig, &msg, &sk, false);
                    (s.verify)(&sig, &msg, &pk)
                }));
                match r { Ok(true) => {}, Ok(false) => { bad = Some(format!("msg{}:rejected", i)); break; }, Err(_) => { bad = Some(format!("msg{}:panic", i)); break; } }
            }
            Some(format!("ok n={} bad={}", count, bad.unwrap_or("-".to_string())))
        }
        _ => None,
    }
}

/// C09: run one API request with the real RNG and return what the RNG tap logged.
/// `rnglog <request line>` -> `ok <n> <len,len,..|-> <hex of all bytes|-> | <answer of the request>`
pub fn rnglog(inner: &str, answer: &dyn Fn(&str) -> String) -> String {
    verif_hooks::set_script(None);
    let _ = verif_hooks::take_log();
    let ans = answer(inner);
    let log = verif_hooks::take_log();
    let lens = if log.is_empty() { "-".to_string() } else { log.iter().map(|b| b.len().to_string()).collect::<Vec<_>>().join(",") };
    let all: Vec<u8> = log.iter().flatten().cloned().collect();
    format!("ok {} {} {} | {}", log.len(), lens, hex(&all), ans)
}

/// C10: run the given request lines concurrently on `threads` threads (each thread walks the whole list starting
/// at a different offset, `rounds` times) and compare every answer with the answer of the isolated, sequential run.
pub fn interleave(threads: usize, rounds: usize, lines: Vec<String>, answer: fn(&str) -> String) -> String {
    let expected: Vec<String> = lines.iter().map(|l| answer(l)).collect();
    let lines = std::sync::Arc::new(lines);
    let expected = std::sync::Arc::new(expected);
    let mut hs = Vec::new();
    for t in 0..threads {
        let lines = lines.clone(); let expected = expected.clone();
        hs.push(std::thread::spawn(move || {
            let mut bad: Vec<String> = Vec::new();
            let n = lines.len();
            let mut calls = 0usize;
            for r in 0..rounds {
                for i in 0..n {
                    let j = (i * (2 * t + 1) + t * 7 + r) % n;
                    let a = answer(&lines[j]);
                    calls += 1;
                    if a != expected[j] { bad.push(format!("thread{}:line{}", t, j)); }
                }
            }
            (calls, bad)
        }));
    }
    let mut calls = 0; let mut bad: Vec<String> = Vec::new();
    for h in hs { let (c, b) = h.join().unwrap(); calls += c; bad.extend(b); }
    format!("ok calls={} mismatches={} first={}", calls, bad.len(), bad.get(0).cloned().unwrap_or("-".to_string()))
}
