// Text encoding of values on the line protocol (DESIGN.md App. B); mirrors lean/DilithiumVerif/Driver/Codec.lean.
use crystals_dilithium::poly::Poly;

pub fn hex(bs: &[u8]) -> String {
    if bs.is_empty() {
        return "-".to_string();
    }
    let mut s = String::with_capacity(bs.len() * 2);
    for b in bs {
        s.push_str(&format!("{:02x}", b));
    }
    s
}

pub fn unhex(s: &str) -> Option<Vec<u8>> {
    if s == "-" {
        return Some(vec![]);
    }
    if s.len() % 2 != 0 {
        return None;
    }
    let b = s.as_bytes();
    let mut out = Vec::with_capacity(s.len() / 2);
    for i in (0..b.len()).step_by(2) {
        let h = (b[i] as char).to_digit(16)?;
        let l = (b[i + 1] as char).to_digit(16)?;
        out.push((h * 16 + l) as u8);
    }
    Some(out)
}

pub fn ints(s: &str) -> Option<Vec<i64>> {
    if s == "-" {
        return Some(vec![]);
    }
    s.split(',').map(|x| x.parse::<i64>().ok()).collect()
}

/// an output polynomial pre-filled with junk (a function that leaves part of its output untouched, or returns early
/// without writing it, is then seen; mirrors the 0xA5 pre-fill of output byte buffers)
pub fn dirty_poly() -> Poly {
    let mut p = Poly::default();
    for (i, c) in p.coeffs.iter_mut().enumerate() {
        *c = 7654321 - (i as i32) * 3;
    }
    p
}

pub fn poly(s: &str) -> Option<Poly> {
    let v = ints(s)?;
    if v.len() != 256 {
        return None;
    }
    let mut p = Poly::default();
    for i in 0..256 {
        if v[i] < i32::MIN as i64 || v[i] > i32::MAX as i64 {
            return None;
        }
        p.coeffs[i] = v[i] as i32;
    }
    Some(p)
}

pub fn polys(s: &str) -> Option<Vec<Poly>> {
    s.split(';').map(poly).collect()
}

pub fn fmt_i32s(v: &[i32]) -> String {
    let mut s = String::with_capacity(v.len() * 8);
    for (i, x) in v.iter().enumerate() {
        if i > 0 {
            s.push(',');
        }
        s.push_str(&x.to_string());
    }
    s
}

pub fn fmt_poly(p: &Poly) -> String {
    fmt_i32s(&p.coeffs)
}

pub fn fmt_polys(v: &[Poly]) -> String {
    v.iter().map(fmt_poly).collect::<Vec<_>>().join(";")
}

pub const FNV0: u64 = 0xcbf29ce484222325;
pub const FAULTMARK: i64 = 0x7fffffffffffff01;
#[inline]
pub fn mix(h: u64, x: i64) -> u64 {
    (h ^ (x as u64)).wrapping_mul(0x100000001b3)
}
