// dv-harness: line-protocol server for the *implementation* (the crate in /repo).
// One request per line on stdin, one answer per line on stdout:
//   ok <canonical value> | fault (the call panicked) | bad-request
use std::io::{self, BufRead, BufWriter, Write};
use std::panic::{self, AssertUnwindSafe};

mod codec;
mod scalar;
mod polyfns;
mod vecfns;
mod schemefns;
mod scan;
mod judge;

fn answer_scalar(f: scalar::ScalarFn, args: &[&str]) -> Option<String> {
    let xs: Option<Vec<i64>> = args.iter().map(|s| s.parse::<i64>().ok()).collect();
    let xs = xs?;
    match panic::catch_unwind(AssertUnwindSafe(|| f(&xs))) {
        Ok(v) => Some(format!("ok {}", v.iter().map(|x| x.to_string()).collect::<Vec<_>>().join(","))),
        Err(_) => Some("fault".to_string()),
    }
}

fn answer_sweep(args: &[&str]) -> Option<String> {
    if args.len() < 4 {
        return None;
    }
    let f = scalar::lookup(args[0])?;
    let lo: i64 = args[1].parse().ok()?;
    let hi: i64 = args[2].parse().ok()?;
    let chunk: i64 = args[3].parse().ok()?;
    if chunk <= 0 {
        return None;
    }
    let rest: Option<Vec<i64>> = args[4..].iter().map(|s| s.parse::<i64>().ok()).collect();
    let rest = rest?;
    let mut out = String::from("ok");
    let mut x = lo;
    let mut argv = vec![0i64; 1 + rest.len()];
    argv[1..].copy_from_slice(&rest);
    while x < hi {
        let n = chunk.min(hi - x);
        let mut h = codec::FNV0;
        let mut nf = 0usize;
        for v in x..x + n {
            argv[0] = v;
            match panic::catch_unwind(AssertUnwindSafe(|| f(&argv))) {
                Ok(r) => { for y in r { h = codec::mix(h, y); } }
                Err(_) => { h = codec::mix(h, codec::FAULTMARK); nf += 1; }
            }
        }
        out.push(' ');
        out.push_str(&h.to_string());
        if nf > 0 { out.push('/'); out.push_str(&nf.to_string()); }
        x += n;
    }
    Some(out)
}

fn answer(line: &str) -> String {
    let toks: Vec<&str> = line.split(' ').filter(|t| !t.is_empty()).collect();
    if toks.is_empty() {
        return String::new();
    }
    let name = toks[0];
    let args = &toks[1..];
    if name == "rnglog" {
        let inner = line.trim_start().strip_prefix("rnglog").unwrap_or("").trim_start();
        return scan::rnglog(inner, &|l| answer(l));
    }
    if name == "sequence" {
        // sequence <request> ;; <request> ;; ... : the requests in this order on this thread, all answers
        let rest = args.join(" ");
        let outs: Vec<String> = rest.split(";;").map(|x| x.trim()).filter(|x| !x.is_empty()).map(|l| answer_owned(l)).collect();
        return format!("ok {}", outs.join(" ;; "));
    }
    if name == "freshthreads" {
        // freshthreads <n> <request> : the request once on each of n newly spawned threads (in waves of 32); how many distinct answers
        if args.len() < 2 { return "bad-request".to_string(); }
        let n: usize = match args[0].parse() { Ok(v) => v, Err(_) => return "bad-request".to_string() };
        let req = args[1..].join(" ");
        let mut answers: Vec<String> = Vec::new();
        let mut left = n;
        while left > 0 {
            let wave = left.min(32);
            let hs: Vec<_> = (0..wave).map(|_| { let r = req.clone(); std::thread::spawn(move || answer_owned(&r)) }).collect();
            for h in hs { answers.push(h.join().unwrap_or_else(|_| "fault".to_string())); }
            left -= wave;
        }
        let faults = answers.iter().filter(|a| !a.starts_with("ok ")).count();
        let mut sorted = answers.clone(); sorted.sort(); sorted.dedup();
        return format!("ok n={} distinct={} faults={}", n, sorted.len(), faults);
    }
    if name == "interleave" {
        // interleave <threads> <rounds> <request> ;; <request> ;; ...
        if args.len() < 3 { return "bad-request".to_string(); }
        let threads: usize = match args[0].parse() { Ok(v) => v, Err(_) => return "bad-request".to_string() };
        let rounds: usize = match args[1].parse() { Ok(v) => v, Err(_) => return "bad-request".to_string() };
        let rest = args[2..].join(" ");
        let lines: Vec<String> = rest.split(";;").map(|x| x.trim().to_string()).filter(|x| !x.is_empty()).collect();
        return scan::interleave(threads, rounds, lines, answer_owned);
    }
    let r = if name == "sweep" {
        answer_sweep(args)
    } else if let Some(f) = scalar::lookup(name) {
        if args.len() != scalar::arity(name) { None } else { answer_scalar(f, args) }
    } else {
        let parts: Vec<&str> = name.split("::").collect();
        match parts.as_slice() {
            ["poly", f] => polyfns::poly_fn("poly", f, args),
            ["ntt", f] => polyfns::poly_fn("ntt", f, args),
            ["poly", set, f] => polyfns::poly_set_fn(set, f, args),
            ["polyvec", lvl, f] => vecfns::vec_fn(lvl, f, args),
            ["packing", set, f] => vecfns::pack_fn(set, f, args),
            ["fips202", f] => schemefns::fips_fn(f, args),
            ["sign", set, f] => schemefns::sign_fn(set, f, args),
            ["scan", f] => scan::scan_fn(f, args),
            [api, ty, f] => schemefns::api_fn(api, &format!("{}::{}", ty, f), args),
            _ => None,
        }
    };
    r.unwrap_or_else(|| "bad-request".to_string())
}

fn answer_owned(line: &str) -> String {
    match panic::catch_unwind(AssertUnwindSafe(|| answer(line))) { Ok(a) => a, Err(_) => "fault".to_string() }
}

fn main() {
    panic::set_hook(Box::new(|_| {}));
    let stdin = io::stdin();
    let stdout = io::stdout();
    let mut out = BufWriter::new(stdout.lock());
    for line in stdin.lock().lines() {
        let line = match line { Ok(l) => l, Err(_) => break };
        let l = line.trim();
        if l.is_empty() || l.starts_with('#') {
            writeln!(out).unwrap();
            continue;
        }
        let a = match panic::catch_unwind(AssertUnwindSafe(|| answer(l))) {
            Ok(a) => a,
            Err(_) => "fault".to_string(),
        };
        writeln!(out, "{}", a).unwrap();
    }
    out.flush().unwrap();
}
