// polyvec/<lvl>.rs and packing/<set>.rs on the line protocol.
use crate::codec::*;
#[allow(unused_imports)]
use crystals_dilithium::poly::Poly;

fn ok(s: String) -> Option<String> {
    Some(format!("ok {}", s))
}

macro_rules! vec_lvl {
    ($fname:ident, $m:ident) => {
        pub fn $fname(f: &str, a: &[&str]) -> Option<String> {
            use crystals_dilithium::polyvec::$m as pv;
            use crystals_dilithium::polyvec::$m::{Polyveck, Polyvecl};
            use crystals_dilithium::params::$m as pp;
            const K: usize = pp::K;
            const L: usize = pp::L;
            fn vk(s: &str) -> Option<Polyveck> {
                let v = polys(s)?; if v.len() != K { return None; }
                let mut r = Polyveck::default(); for i in 0..K { r.vec[i] = v[i]; } Some(r)
            }
            fn vl(s: &str) -> Option<Polyvecl> {
                let v = polys(s)?; if v.len() != L { return None; }
                let mut r = Polyvecl::default(); for i in 0..L { r.vec[i] = v[i]; } Some(r)
            }
            fn dk() -> Polyveck { let mut r = Polyveck::default(); for p in r.vec.iter_mut() { *p = dirty_poly(); } r }
            fn dl() -> Polyvecl { let mut r = Polyvecl::default(); for p in r.vec.iter_mut() { *p = dirty_poly(); } r }
            fn mat(s: &str) -> Option<Vec<Polyvecl>> {
                let rows: Option<Vec<Polyvecl>> = s.split('|').map(vl).collect();
                let rows = rows?; if rows.len() != K { return None; } Some(rows)
            }
            match (f, a.len()) {
                ("matrix_expand", 1) => {
                    let rho = unhex(a[0])?; let mut m = [dl(); K];
                    pv::matrix_expand(&mut m, &rho);
                    ok(m.iter().map(|r| fmt_polys(&r.vec)).collect::<Vec<_>>().join("|"))
                }
                ("l_pointwise_acc_montgomery", 2) => {
                    let u = vl(a[0])?; let v = vl(a[1])?; let mut w = dirty_poly();
                    pv::l_pointwise_acc_montgomery(&mut w, &u, &v); ok(fmt_poly(&w))
                }
                ("matrix_pointwise_montgomery", 2) => {
                    let m = mat(a[0])?; let v = vl(a[1])?; let mut t = dk();
                    pv::matrix_pointwise_montgomery(&mut t, &m, &v); ok(fmt_polys(&t.vec))
                }
                ("l_uniform_eta", 2) => { let seed = unhex(a[0])?; let n: u16 = a[1].parse().ok()?; let mut v = dl(); pv::l_uniform_eta(&mut v, &seed, n); ok(fmt_polys(&v.vec)) }
                ("k_uniform_eta", 2) => { let seed = unhex(a[0])?; let n: u16 = a[1].parse().ok()?; let mut v = dk(); pv::k_uniform_eta(&mut v, &seed, n); ok(fmt_polys(&v.vec)) }
                ("l_uniform_gamma1", 2) => { let seed = unhex(a[0])?; let n: u16 = a[1].parse().ok()?; let mut v = dl(); pv::l_uniform_gamma1(&mut v, &seed, n); ok(fmt_polys(&v.vec)) }
                ("l_reduce", 1) => { let mut v = vl(a[0])?; pv::l_reduce(&mut v); ok(fmt_polys(&v.vec)) }
                ("k_reduce", 1) => { let mut v = vk(a[0])?; pv::k_reduce(&mut v); ok(fmt_polys(&v.vec)) }
                ("k_caddq", 1) => { let mut v = vk(a[0])?; pv::k_caddq(&mut v); ok(fmt_polys(&v.vec)) }
                ("l_add", 2) => { let mut w = vl(a[0])?; let v = vl(a[1])?; pv::l_add(&mut w, &v); ok(fmt_polys(&w.vec)) }
                ("k_add", 2) => { let mut w = vk(a[0])?; let v = vk(a[1])?; pv::k_add(&mut w, &v); ok(fmt_polys(&w.vec)) }
                ("k_sub", 2) => { let mut w = vk(a[0])?; let v = vk(a[1])?; pv::k_sub(&mut w, &v); ok(fmt_polys(&w.vec)) }
                ("k_shiftl", 1) => { let mut v = vk(a[0])?; pv::k_shiftl(&mut v); ok(fmt_polys(&v.vec)) }
                ("l_ntt", 1) => { let mut v = vl(a[0])?; pv::l_ntt(&mut v); ok(fmt_polys(&v.vec)) }
                ("k_ntt", 1) => { let mut v = vk(a[0])?; pv::k_ntt(&mut v); ok(fmt_polys(&v.vec)) }
                ("l_invntt_tomont", 1) => { let mut v = vl(a[0])?; pv::l_invntt_tomont(&mut v); ok(fmt_polys(&v.vec)) }
                ("k_invntt_tomont", 1) => { let mut v = vk(a[0])?; pv::k_invntt_tomont(&mut v); ok(fmt_polys(&v.vec)) }
                ("l_pointwise_poly_montgomery", 2) => { let x = poly(a[0])?; let v = vl(a[1])?; let mut r = dl(); pv::l_pointwise_poly_montgomery(&mut r, &x, &v); ok(fmt_polys(&r.vec)) }
                ("k_pointwise_poly_montgomery", 2) => { let x = poly(a[0])?; let v = vk(a[1])?; let mut r = dk(); pv::k_pointwise_poly_montgomery(&mut r, &x, &v); ok(fmt_polys(&r.vec)) }
                ("l_chknorm", 2) => { let v = vl(a[0])?; let b: i32 = a[1].parse().ok()?; ok(pv::l_chknorm(&v, b).to_string()) }
                ("k_chknorm", 2) => { let v = vk(a[0])?; let b: i32 = a[1].parse().ok()?; ok(pv::k_chknorm(&v, b).to_string()) }
                ("k_power2round", 1) => { let mut v1 = vk(a[0])?; let mut v0 = dk(); pv::k_power2round(&mut v1, &mut v0); ok(format!("{} {}", fmt_polys(&v1.vec), fmt_polys(&v0.vec))) }
                ("k_decompose", 1) => { let mut v1 = vk(a[0])?; let mut v0 = dk(); pv::k_decompose(&mut v1, &mut v0); ok(format!("{} {}", fmt_polys(&v1.vec), fmt_polys(&v0.vec))) }
                ("k_make_hint", 2) => { let v0 = vk(a[0])?; let v1 = vk(a[1])?; let mut h = dk(); let s = pv::k_make_hint(&mut h, &v0, &v1); ok(format!("{} {}", fmt_polys(&h.vec), s)) }
                ("k_use_hint", 2) => { let mut x = vk(a[0])?; let h = vk(a[1])?; pv::k_use_hint(&mut x, &h); ok(fmt_polys(&x.vec)) }
                ("k_pack_w1", 1) => { let v = vk(a[0])?; let mut r = vec![0xA5u8; K * pp::POLYW1_PACKEDBYTES]; pv::k_pack_w1(&mut r, &v); ok(hex(&r)) }
                _ => None,
            }
        }
    };
}

vec_lvl!(vec_lvl2, lvl2);
vec_lvl!(vec_lvl3, lvl3);
vec_lvl!(vec_lvl5, lvl5);

pub fn vec_fn(lvl: &str, f: &str, a: &[&str]) -> Option<String> {
    match lvl {
        "lvl2" => vec_lvl2(f, a),
        "lvl3" => vec_lvl3(f, a),
        "lvl5" => vec_lvl5(f, a),
        _ => None,
    }
}

macro_rules! pack_set {
    ($fname:ident, $set:ident, $lvl:ident, $trbytes:expr, $cbytes:expr) => {
        pub fn $fname(f: &str, a: &[&str]) -> Option<String> {
            use crystals_dilithium::packing::$set as pk;
            use crystals_dilithium::polyvec::$lvl::{Polyveck, Polyvecl};
            use crystals_dilithium::params::$set as pp;
            const K: usize = pp::K;
            const L: usize = pp::L;
            fn vk(s: &str) -> Option<Polyveck> {
                let v = polys(s)?; if v.len() != K { return None; }
                let mut r = Polyveck::default(); for i in 0..K { r.vec[i] = v[i]; } Some(r)
            }
            fn vl(s: &str) -> Option<Polyvecl> {
                let v = polys(s)?; if v.len() != L { return None; }
                let mut r = Polyvecl::default(); for i in 0..L { r.vec[i] = v[i]; } Some(r)
            }
            fn dk() -> Polyveck { let mut r = Polyveck::default(); for p in r.vec.iter_mut() { *p = dirty_poly(); } r }
            fn dl() -> Polyvecl { let mut r = Polyvecl::default(); for p in r.vec.iter_mut() { *p = dirty_poly(); } r }
            match (f, a.len()) {
                ("pack_pk", 2) => { let rho = unhex(a[0])?; let t1 = vk(a[1])?; let mut out = vec![0xA5u8; pp::PUBLICKEYBYTES]; pk::pack_pk(&mut out, &rho, &t1); ok(hex(&out)) }
                ("unpack_pk", 1) => {
                    let b = unhex(a[0])?; let mut rho = [0u8; 32]; let mut t1 = dk();
                    pk::unpack_pk(&mut rho, &mut t1, &b); ok(format!("{} {}", hex(&rho), fmt_polys(&t1.vec)))
                }
                ("pack_sk", 6) => {
                    let rho = unhex(a[0])?; let tr = unhex(a[1])?; let key = unhex(a[2])?;
                    let t0 = vk(a[3])?; let s1 = vl(a[4])?; let s2 = vk(a[5])?;
                    let mut out = vec![0xA5u8; pp::SECRETKEYBYTES];
                    pk::pack_sk(&mut out, &rho, &tr, &key, &t0, &s1, &s2); ok(hex(&out))
                }
                ("unpack_sk", 1) => {
                    let b = unhex(a[0])?;
                    let mut rho = [0u8; 32]; let mut tr = [0u8; $trbytes]; let mut key = [0u8; 32];
                    let mut t0 = dk(); let mut s1 = dl(); let mut s2 = dk();
                    pk::unpack_sk(&mut rho, &mut tr, &mut key, &mut t0, &mut s1, &mut s2, &b);
                    ok(format!("{} {} {} {} {} {}", hex(&rho), hex(&tr), hex(&key), fmt_polys(&t0.vec), fmt_polys(&s1.vec), fmt_polys(&s2.vec)))
                }
                ("pack_sig", 3) => {
                    let c = unhex(a[0])?; let z = vl(a[1])?; let h = vk(a[2])?;
                    let mut out = vec![0xA5u8; pp::SIGNBYTES];
                    pk::pack_sig(&mut out, Some(&c), &z, &h); ok(hex(&out))
                }
                ("unpack_sig", 1) => {
                    let b = unhex(a[0])?;
                    let mut c = [0u8; $cbytes]; let mut z = dl(); let mut h = Polyveck::default();
                    let r = pk::unpack_sig(&mut c, &mut z, &mut h, &b);
                    if r { ok(format!("true {} {} {}", hex(&c), fmt_polys(&z.vec), fmt_polys(&h.vec))) } else { ok("false".to_string()) }
                }
                _ => None,
            }
        }
    };
}

pack_set!(pack_lvl2, lvl2, lvl2, 32, 32);
pack_set!(pack_lvl3, lvl3, lvl3, 32, 32);
pack_set!(pack_lvl5, lvl5, lvl5, 32, 32);
pack_set!(pack_ml_dsa_44, ml_dsa_44, lvl2, 64, 32);
pack_set!(pack_ml_dsa_65, ml_dsa_65, lvl3, 64, 48);
pack_set!(pack_ml_dsa_87, ml_dsa_87, lvl5, 64, 64);

pub fn pack_fn(set: &str, f: &str, a: &[&str]) -> Option<String> {
    match set {
        "lvl2" => pack_lvl2(f, a),
        "lvl3" => pack_lvl3(f, a),
        "lvl5" => pack_lvl5(f, a),
        "ml_dsa_44" => pack_ml_dsa_44(f, a),
        "ml_dsa_65" => pack_ml_dsa_65(f, a),
        "ml_dsa_87" => pack_ml_dsa_87(f, a),
        _ => None,
    }
}
