// poly.rs / ntt.rs / poly/<set>.rs functions on the line protocol.
use crate::codec::*;
use crystals_dilithium::poly::{self, Poly};
use crystals_dilithium::{ntt, params};

fn ok(s: String) -> Option<String> {
    Some(format!("ok {}", s))
}

fn usz(s: &str) -> Option<usize> {
    s.parse::<usize>().ok()
}

pub fn poly_fn(module: &str, f: &str, a: &[&str]) -> Option<String> {
    match (f, a.len()) {
        ("reduce", 1) => { let mut x = poly(a[0])?; poly::reduce(&mut x); ok(fmt_poly(&x)) }
        ("caddq", 1) => { let mut x = poly(a[0])?; poly::caddq(&mut x); ok(fmt_poly(&x)) }
        ("add", 2) => { let x = poly(a[0])?; let y = poly(a[1])?; ok(fmt_poly(&poly::add(&x, &y))) }
        ("add_ip", 2) => { let mut x = poly(a[0])?; let y = poly(a[1])?; poly::add_ip(&mut x, &y); ok(fmt_poly(&x)) }
        ("sub", 2) => { let x = poly(a[0])?; let y = poly(a[1])?; ok(fmt_poly(&poly::sub(&x, &y))) }
        ("sub_ip", 2) => { let mut x = poly(a[0])?; let y = poly(a[1])?; poly::sub_ip(&mut x, &y); ok(fmt_poly(&x)) }
        ("shiftl", 1) => { let mut x = poly(a[0])?; poly::shiftl(&mut x); ok(fmt_poly(&x)) }
        ("ntt", 1) => {
            let mut x = poly(a[0])?;
            if module == "ntt" { ntt::ntt(&mut x.coeffs) } else { poly::ntt(&mut x) }
            ok(fmt_poly(&x))
        }
        ("invntt_tomont", 1) => {
            let mut x = poly(a[0])?;
            if module == "ntt" { ntt::invntt_tomont(&mut x.coeffs) } else { poly::invntt_tomont(&mut x) }
            ok(fmt_poly(&x))
        }
        // the raw slice interface of ntt.rs at different positions of a backing array (alignment of the caller's buffer)
        ("ntt_off", 2) | ("invntt_tomont_off", 2) => {
            let off: usize = a[0].parse().ok()?; let x = poly(a[1])?;
            if off > 7 { return None; }
            let mut backing = vec![0x55AA55i32; 256 + 8];
            backing[off..off + 256].copy_from_slice(&x.coeffs);
            if f == "ntt_off" { ntt::ntt(&mut backing[off..off + 256]) } else { ntt::invntt_tomont(&mut backing[off..off + 256]) }
            let mut r = Poly::default();
            r.coeffs.copy_from_slice(&backing[off..off + 256]);
            ok(fmt_poly(&r))
        }
        ("pointwise_montgomery", 2) => {
            let x = poly(a[0])?; let y = poly(a[1])?; let mut c = dirty_poly();
            poly::pointwise_montgomery(&mut c, &x, &y); ok(fmt_poly(&c))
        }
        ("power2round", 1) => {
            let mut a1 = poly(a[0])?; let mut a0 = dirty_poly();
            poly::power2round(&mut a1, &mut a0);
            ok(format!("{} {}", fmt_poly(&a1), fmt_poly(&a0)))
        }
        ("chknorm", 2) => { let x = poly(a[0])?; let b: i32 = a[1].parse().ok()?; ok(poly::chknorm(&x, b).to_string()) }
        ("rej_uniform", 4) => {
            let alen = usz(a[0])?; let acap = usz(a[1])?; let buf = unhex(a[2])?; let buflen = usz(a[3])?;
            let mut out = vec![0i32; acap];
            let ctr = poly::rej_uniform(&mut out, alen, &buf, buflen);
            ok(format!("{} {}", ctr, if ctr == 0 { "-".to_string() } else { fmt_i32s(&out[..ctr]) }))
        }
        ("uniform", 2) => {
            let seed = unhex(a[0])?; let nonce: u16 = a[1].parse().ok()?;
            let mut x = dirty_poly(); poly::uniform(&mut x, &seed, nonce); ok(fmt_poly(&x))
        }
        ("t1_pack", 1) => { let x = poly(a[0])?; let mut r = vec![0xA5u8; params::POLYT1_PACKEDBYTES]; poly::t1_pack(&mut r, &x); ok(hex(&r)) }
        ("t1_unpack", 1) => { let b = unhex(a[0])?; let mut x = dirty_poly(); poly::t1_unpack(&mut x, &b); ok(fmt_poly(&x)) }
        ("t0_pack", 1) => { let x = poly(a[0])?; let mut r = vec![0xA5u8; params::POLYT0_PACKEDBYTES]; poly::t0_pack(&mut r, &x); ok(hex(&r)) }
        ("t0_unpack", 1) => { let b = unhex(a[0])?; let mut x = dirty_poly(); poly::t0_unpack(&mut x, &b); ok(fmt_poly(&x)) }
        _ => None,
    }
}

macro_rules! poly_set {
    ($fname:ident, $m:ident, $pp:ident) => {
        pub fn $fname(f: &str, a: &[&str]) -> Option<String> {
            use crystals_dilithium::poly::$m as pm;
            use crystals_dilithium::params::$pp as pp;
            match (f, a.len()) {
                ("decompose", 1) => {
                    let mut a1 = poly(a[0])?; let mut a0 = dirty_poly();
                    pm::decompose(&mut a1, &mut a0);
                    ok(format!("{} {}", fmt_poly(&a1), fmt_poly(&a0)))
                }
                ("make_hint", 2) => {
                    let a0 = poly(a[0])?; let a1 = poly(a[1])?; let mut h = dirty_poly();
                    let s = pm::make_hint(&mut h, &a0, &a1);
                    ok(format!("{} {}", fmt_poly(&h), s))
                }
                ("use_hint", 2) => { let mut x = poly(a[0])?; let h = poly(a[1])?; pm::use_hint(&mut x, &h); ok(fmt_poly(&x)) }
                ("use_hint_ip", 2) => { let mut x = poly(a[0])?; let h = poly(a[1])?; pm::use_hint_ip(&mut x, &h); ok(fmt_poly(&x)) }
                ("rej_eta", 4) => {
                    let alen = usz(a[0])?; let acap = usz(a[1])?; let buf = unhex(a[2])?; let buflen = usz(a[3])?;
                    let mut out = vec![0i32; acap];
                    let ctr = pm::rej_eta(&mut out, alen, &buf, buflen) as usize;
                    ok(format!("{} {}", ctr, if ctr == 0 { "-".to_string() } else { fmt_i32s(&out[..ctr]) }))
                }
                ("uniform_eta", 2) => {
                    let seed = unhex(a[0])?; let nonce: u16 = a[1].parse().ok()?;
                    let mut x = dirty_poly(); pm::uniform_eta(&mut x, &seed, nonce); ok(fmt_poly(&x))
                }
                ("uniform_gamma1", 2) => {
                    let seed = unhex(a[0])?; let nonce: u16 = a[1].parse().ok()?;
                    let mut x = dirty_poly(); pm::uniform_gamma1(&mut x, &seed, nonce); ok(fmt_poly(&x))
                }
                ("challenge", 1) => { let seed = unhex(a[0])?; let mut x = dirty_poly(); pm::challenge(&mut x, &seed); ok(fmt_poly(&x)) }
                ("eta_pack", 1) => { let x = poly(a[0])?; let mut r = vec![0xA5u8; pp::POLYETA_PACKEDBYTES]; pm::eta_pack(&mut r, &x); ok(hex(&r)) }
                ("eta_unpack", 1) => { let b = unhex(a[0])?; let mut x = dirty_poly(); pm::eta_unpack(&mut x, &b); ok(fmt_poly(&x)) }
                ("z_pack", 1) => { let x = poly(a[0])?; let mut r = vec![0xA5u8; pp::POLYZ_PACKEDBYTES]; pm::z_pack(&mut r, &x); ok(hex(&r)) }
                ("z_unpack", 1) => { let b = unhex(a[0])?; let mut x = dirty_poly(); pm::z_unpack(&mut x, &b); ok(fmt_poly(&x)) }
                ("w1_pack", 1) => { let x = poly(a[0])?; let mut r = vec![0xA5u8; pp::POLYW1_PACKEDBYTES]; pm::w1_pack(&mut r, &x); ok(hex(&r)) }
                _ => None,
            }
        }
    };
}

poly_set!(poly_lvl2, lvl2, lvl2);
poly_set!(poly_lvl3, lvl3, lvl3);
poly_set!(poly_lvl5, lvl5, lvl5);
poly_set!(poly_ml_dsa_44, ml_dsa_44, ml_dsa_44);
poly_set!(poly_ml_dsa_65, ml_dsa_65, ml_dsa_65);
poly_set!(poly_ml_dsa_87, ml_dsa_87, ml_dsa_87);

pub fn poly_set_fn(set: &str, f: &str, a: &[&str]) -> Option<String> {
    match set {
        "lvl2" => poly_lvl2(f, a),
        "lvl3" => poly_lvl3(f, a),
        "lvl5" => poly_lvl5(f, a),
        "ml_dsa_44" => poly_ml_dsa_44(f, a),
        "ml_dsa_65" => poly_ml_dsa_65(f, a),
        "ml_dsa_87" => poly_ml_dsa_87(f, a),
        _ => None,
    }
}
