// Scalar kernels: reduce::*, rounding::*  (C14, C15)
use crystals_dilithium::{reduce, rounding};

pub type ScalarFn = fn(&[i64]) -> Vec<i64>;

fn i(x: i64) -> i32 {
    assert!(x >= i32::MIN as i64 && x <= i32::MAX as i64, "harness: argument not an i32");
    x as i32
}

pub fn arity(name: &str) -> usize {
    match name {
        n if n.ends_with("make_hint") || n.ends_with("use_hint") || n.ends_with("hint_roundtrip") => 2,
        _ => 1,
    }
}

pub fn lookup(name: &str) -> Option<ScalarFn> {
    Some(match name {
        "reduce::montgomery_reduce" => |a| vec![reduce::montgomery_reduce(a[0]) as i64],
        "reduce::reduce32" => |a| vec![reduce::reduce32(i(a[0])) as i64],
        "reduce::caddq" => |a| vec![reduce::caddq(i(a[0])) as i64],
        "rounding::power2round" => |a| { let (a0, a1) = rounding::power2round(i(a[0])); vec![a0 as i64, a1 as i64] },
        "rounding::lvl2::decompose" => |a| { let (a0, a1) = rounding::lvl2::decompose(i(a[0])); vec![a0 as i64, a1 as i64] },
        "rounding::lvl3::decompose" => |a| { let (a0, a1) = rounding::lvl3::decompose(i(a[0])); vec![a0 as i64, a1 as i64] },
        "rounding::lvl5::decompose" => |a| { let (a0, a1) = rounding::lvl5::decompose(i(a[0])); vec![a0 as i64, a1 as i64] },
        "rounding::lvl2::make_hint" => |a| vec![rounding::lvl2::make_hint(i(a[0]), i(a[1])) as i64],
        "rounding::lvl3::make_hint" => |a| vec![rounding::lvl3::make_hint(i(a[0]), i(a[1])) as i64],
        "rounding::lvl5::make_hint" => |a| vec![rounding::lvl5::make_hint(i(a[0]), i(a[1])) as i64],
        "rounding::lvl2::use_hint" => |a| vec![rounding::lvl2::use_hint(i(a[0]), i(a[1])) as i64],
        "rounding::lvl3::use_hint" => |a| vec![rounding::lvl3::use_hint(i(a[0]), i(a[1])) as i64],
        "rounding::lvl5::use_hint" => |a| vec![rounding::lvl5::use_hint(i(a[0]), i(a[1])) as i64],
        "rounding::lvl2::hint_roundtrip" => |a| { let g = crystals_dilithium::params::lvl2::GAMMA2 as i64; let r = (a[1] * 2 * g + a[0]).rem_euclid(8380417); vec![rounding::lvl2::use_hint(i(r), rounding::lvl2::make_hint(i(a[0]), i(a[1]))) as i64] },
        "rounding::lvl3::hint_roundtrip" => |a| { let g = crystals_dilithium::params::lvl3::GAMMA2 as i64; let r = (a[1] * 2 * g + a[0]).rem_euclid(8380417); vec![rounding::lvl3::use_hint(i(r), rounding::lvl3::make_hint(i(a[0]), i(a[1]))) as i64] },
        "rounding::lvl5::hint_roundtrip" => |a| { let g = crystals_dilithium::params::lvl5::GAMMA2 as i64; let r = (a[1] * 2 * g + a[0]).rem_euclid(8380417); vec![rounding::lvl5::use_hint(i(r), rounding::lvl5::make_hint(i(a[0]), i(a[1]))) as i64] },
        _ => return None,
    })
}
