// C06 at volume: an implementation-side judge of emitted signatures.  Under one generated key, sign many messages
// and re-derive, with the SECRET key, the quantities the four rejection tests of the specification are about:
//   y = z - c s1 (must be a mask: -gamma1 < y <= gamma1),  w = A y,  r = w - c s2,
//   |LowBits(r)| < gamma2 - beta  and  HighBits(r) = HighBits(w),   |z| < gamma1 - beta,   |c t0| < gamma2,
//   h = MakeHint(-c t0, r + c t0) (the hint vector in the signature, bit for bit), at most omega ones.
// The ring products go through the crate's NTT (tied by C13/C19); the bounds, Decompose and MakeHint are
// recomputed here with plain integer arithmetic from the definitions (FIPS 204 Alg. 35-39), not with the crate's.
use crate::codec::*;
use crystals_dilithium::{packing, params, poly, poly::Poly, polyvec};

const Q: i64 = 8380417;

fn cmod(a: i64) -> i64 { let r = a.rem_euclid(Q); if r > (Q - 1) / 2 { r - Q } else { r } }

/// Decompose (FIPS 204 Alg. 36) of a in [0, q): (r1, r0)
fn decompose(a: i64, g2: i64) -> (i64, i64) {
    let mut r0 = a.rem_euclid(2 * g2);
    if r0 > g2 { r0 -= 2 * g2; }
    if a - r0 == Q - 1 { (0, r0 - 1) } else { ((a - r0) / (2 * g2), r0) }
}

macro_rules! judge_set {
    ($fname:ident, $set:ident, $pv:ident, $trbytes:expr) => {
        fn $fname(seed: &[u8], count: usize, first: usize) -> String {
            use params::$set as pp;
            use polyvec::$pv::{Polyveck, Polyvecl};
            const K: usize = pp::K; const L: usize = pp::L;
            let (g1, g2, beta, omega) = (pp::GAMMA1 as i64, pp::GAMMA2 as i64, pp::BETA as i64, pp::OMEGA);
            let ctl = pp::SIGNBYTES - L * pp::POLYZ_PACKEDBYTES - pp::POLYVECH_PACKEDBYTES;
            let mut pk = vec![0x11u8; pp::PUBLICKEYBYTES]; let mut sk = vec![0x22u8; pp::SECRETKEYBYTES];
            crystals_dilithium::sign::$set::keypair(&mut pk, &mut sk, Some(seed));
            let mut rho = [0u8; params::SEEDBYTES]; let mut tr = [0u8; $trbytes]; let mut key = [0u8; params::SEEDBYTES];
            let (mut t0, mut s1, mut s2) = (Polyveck::default(), Polyvecl::default(), Polyveck::default());
            packing::$set::unpack_sk(&mut rho, &mut tr, &mut key, &mut t0, &mut s1, &mut s2, &sk);
            let mut mat = [Polyvecl::default(); K];
            polyvec::$pv::matrix_expand(&mut mat, &rho);
            polyvec::$pv::l_ntt(&mut s1); polyvec::$pv::k_ntt(&mut s2); polyvec::$pv::k_ntt(&mut t0);
            let mut bad: Option<String> = None;
            let mut judged = 0usize;
            'msgs: for i in first..first + count {
                let msg = (i as u64).to_le_bytes().to_vec();
                let mut sig = vec![crate::schemefns::next_fill(); pp::SIGNBYTES];
                crystals_dilithium::sign::$set::signature(&mut sig, &msg, &sk, false);
                let mut c = [0u8; 64]; let (mut z, mut h) = (Polyvecl::default(), Polyveck::default());
                if !packing::$set::unpack_sig(&mut c, &mut z, &mut h, &sig) { bad = Some(format!("msg{}:emitted-signature-does-not-decode", i)); break; }
                let mut cp = Poly::default();
                poly::$set::challenge(&mut cp, &c[..ctl]);
                poly::ntt(&mut cp);
                // y = z - c s1
                let mut cs1 = Polyvecl::default();
                polyvec::$pv::l_pointwise_poly_montgomery(&mut cs1, &cp, &s1);
                polyvec::$pv::l_invntt_tomont(&mut cs1);
                let mut y = Polyvecl::default();
                for r in 0..L { for j in 0..256 {
                    let zz = z.vec[r].coeffs[j] as i64;
                    if zz.abs() >= g1 - beta { bad = Some(format!("msg{}:|z|={}>=gamma1-beta", i, zz.abs())); break 'msgs; }
                    let yy = zz - cmod(cs1.vec[r].coeffs[j] as i64);
                    if yy <= -g1 || yy > g1 { bad = Some(format!("msg{}:y=z-cs1={}-outside-mask-range", i, yy)); break 'msgs; }
                    y.vec[r].coeffs[j] = yy as i32;
                } }
                // w = A y in [0, q)
                polyvec::$pv::l_ntt(&mut y);
                let mut w = Polyveck::default();
                polyvec::$pv::matrix_pointwise_montgomery(&mut w, &mat, &y);
                polyvec::$pv::k_reduce(&mut w); polyvec::$pv::k_invntt_tomont(&mut w);
                let (mut cs2, mut ct0) = (Polyveck::default(), Polyveck::default());
                polyvec::$pv::k_pointwise_poly_montgomery(&mut cs2, &cp, &s2); polyvec::$pv::k_invntt_tomont(&mut cs2);
                polyvec::$pv::k_pointwise_poly_montgomery(&mut ct0, &cp, &t0); polyvec::$pv::k_invntt_tomont(&mut ct0);
                let mut ones = 0usize;
                for r in 0..K { for j in 0..256 {
                    let wv = (w.vec[r].coeffs[j] as i64).rem_euclid(Q);
                    let e2 = cmod(cs2.vec[r].coeffs[j] as i64); let e0 = cmod(ct0.vec[r].coeffs[j] as i64);
                    let rv = (wv - e2).rem_euclid(Q);
                    let (r1, r0) = decompose(rv, g2);
                    let (w1, _) = decompose(wv, g2);
                    if r0.abs() >= g2 - beta { bad = Some(format!("msg{}:|LowBits(w-cs2)|={}>=gamma2-beta={}", i, r0.abs(), g2 - beta)); break 'msgs; }
                    if r1 != w1 { bad = Some(format!("msg{}:HighBits(w-cs2)!=HighBits(w)", i)); break 'msgs; }
                    if e0.abs() >= g2 { bad = Some(format!("msg{}:|ct0|={}>=gamma2", i, e0.abs())); break 'msgs; }
                    let (v1, _) = decompose((rv + e0).rem_euclid(Q), g2);
                    let hint = if v1 != r1 { 1 } else { 0 };
                    if h.vec[r].coeffs[j] != hint { bad = Some(format!("msg{}:hint[{}][{}]={}-is-not-MakeHint", i, r, j, h.vec[r].coeffs[j])); break 'msgs; }
                    ones += hint as usize;
                } }
                if ones > omega { bad = Some(format!("msg{}:{}-hints>omega", i, ones)); break; }
                judged += 1;
            }
            format!("ok judged={} bad={}", judged, bad.unwrap_or("-".to_string()))
        }
    };
}
judge_set!(judge_lvl2, lvl2, lvl2, params::SEEDBYTES);
judge_set!(judge_lvl3, lvl3, lvl3, params::SEEDBYTES);
judge_set!(judge_lvl5, lvl5, lvl5, params::SEEDBYTES);
judge_set!(judge_ml_dsa_44, ml_dsa_44, lvl2, params::TR_BYTES);
judge_set!(judge_ml_dsa_65, ml_dsa_65, lvl3, params::TR_BYTES);
judge_set!(judge_ml_dsa_87, ml_dsa_87, lvl5, params::TR_BYTES);

/// `scan::judgemany <set> <seed> <count> <first>`
pub fn judgemany(a: &[&str]) -> Option<String> {
    if a.len() != 4 { return None; }
    let seed = unhex(a[1])?; let count: usize = a[2].parse().ok()?; let first: usize = a[3].parse().ok()?;
    if seed.len() != 32 { return None; }
    Some(match a[0] {
        "lvl2" => judge_lvl2(&seed, count, first), "lvl3" => judge_lvl3(&seed, count, first), "lvl5" => judge_lvl5(&seed, count, first),
        "ml_dsa_44" => judge_ml_dsa_44(&seed, count, first), "ml_dsa_65" => judge_ml_dsa_65(&seed, count, first),
        "ml_dsa_87" => judge_ml_dsa_87(&seed, count, first),
        _ => return None,
    })
}
