def Q : Int := 8380417
def QINV : Int := 58728449
def wrap32 (x : Int) : Int := Int.bmod x (2^32)
def wrap64 (x : Int) : Int := Int.bmod x (2^64)
def chk64 (x : Int) : Option Int := if -(2^63) ≤ x ∧ x < 2^63 then some x else none
theorem chk64_ok (x : Int) (h : -(2^63) ≤ x ∧ x < 2^63) : chk64 x = some x := by
  unfold chk64; rw [if_pos h]

/-- let mut t = (a as i32).wrapping_mul(Q_INV) as i64; t = (a - t.wrapping_mul(Q)) >> 32; t as i32 -/
def mont (a : Int) : Option Int := do
  let t := wrap32 (wrap32 a * QINV)
  let d ← chk64 (a - wrap64 (t * Q))
  pure (wrap32 (d / 2^32))

theorem wrap32_range (x : Int) : -(2^31) ≤ wrap32 x ∧ wrap32 x < 2^31 := by
  unfold wrap32; constructor
  · have := Int.le_bmod (x := x) (m := 2^32) (by decide); omega
  · have := Int.bmod_lt (x := x) (m := 2^32) (by decide); omega
theorem wrap32_emod (x : Int) : wrap32 x % 2^32 = x % 2^32 := Int.bmod_emod
theorem wrap32_id (x : Int) (h : -(2^31) ≤ x ∧ x < 2^31) : wrap32 x = x := by
  unfold wrap32; apply Int.bmod_eq_of_le <;> omega
theorem wrap64_id (x : Int) (h : -(2^63) ≤ x ∧ x < 2^63) : wrap64 x = x := by
  unfold wrap64; apply Int.bmod_eq_of_le <;> omega

theorem mont_spec (a : Int) (h : -(2^31 * Q) < a ∧ a < 2^31 * Q) :
    ∃ r, mont a = some r ∧ (r * 2^32 - a) % Q = 0 ∧ -Q < r ∧ r < Q := by
  simp only [Q, QINV, mont] at *
  have hw := wrap32_emod a
  have ht := wrap32_emod (wrap32 a * 58728449)
  have htr := wrap32_range (wrap32 a * 58728449)
  generalize wrap32 (wrap32 a * 58728449) = t at *
  generalize wrap32 a = w at *
  rw [wrap64_id _ (by omega)]
  have hdiv : (a - t * 8380417) % 2^32 = 0 := by omega
  rw [chk64_ok _ (by omega)]
  simp only [Option.pure_def, Option.bind_eq_bind, Option.bind_some]
  rw [wrap32_id _ (by omega)]
  refine ⟨_, rfl, ?_, ?_, ?_⟩ <;> omega
#print axioms mont_spec
