import Mathlib.Tactic.Ring
import Mathlib.Algebra.Ring.Defs

variable {R : Type} [CommRing R]

def peval (a : List R) (x : R) : R := a.foldr (fun c acc => c + x * acc) 0

@[simp] theorem peval_nil (x : R) : peval ([] : List R) x = 0 := rfl
@[simp] theorem peval_cons (c : R) (a : List R) (x : R) : peval (c :: a) x = c + x * peval a x := rfl

theorem peval_append (a b : List R) (x : R) : peval (a ++ b) x = peval a x + x ^ a.length * peval b x := by
  induction a with
  | nil => simp
  | cons c a ih => simp [ih, pow_succ]; ring

theorem peval_zipWith (c : R) : ∀ (lo hi : List R), lo.length = hi.length → ∀ x,
    peval (List.zipWith (fun u v => u + c * v) lo hi) x = peval lo x + c * peval hi x
  | [], [], _, x => by simp
  | u :: lo, v :: hi, h, x => by
      simp only [List.zipWith_cons_cons, peval_cons]
      rw [peval_zipWith c lo hi (by simpa using h) x]; ring
  | [], _ :: _, h, _ => by simp at h
  | _ :: _, [], h, _ => by simp at h

/-- depth-first NTT over a zeta tree: node k has children 2k, 2k+1 -/
def nttRec (z : Nat → R) : Nat → Nat → List R → List R
  | 0, _, a => a
  | m+1, k, a =>
      let lo := a.take (2^m)
      let hi := a.drop (2^m)
      nttRec z m (2*k) (List.zipWith (fun u v => u + z k * v) lo hi) ++
      nttRec z m (2*k+1) (List.zipWith (fun u v => u + (- z k) * v) lo hi)

/-- evaluation point of output position i under node k at height m; r = root attached to a node -/
def psi (r : Nat → R) : Nat → Nat → Nat → R
  | 0, k, _ => r k
  | m+1, k, i => if i < 2^m then psi r m (2*k) i else psi r m (2*k+1) (i - 2^m)

theorem nttRec_length (z : Nat → R) : ∀ m k (a : List R), a.length = 2^m → (nttRec z m k a).length = 2^m
  | 0, _, a, h => by simpa [nttRec] using h
  | m+1, k, a, h => by
      have h2 : (2:Nat)^(m+1) = 2^m + 2^m := by ring
      simp only [nttRec, List.length_append]
      rw [nttRec_length z m _ _ (by simp [h, h2]), nttRec_length z m _ _ (by simp [h, h2])]
      omega

theorem psi_pow (r z : Nat → R) (hl : ∀ k, r (2*k) = z k) (hr : ∀ k, r (2*k+1) = - z k)
    (hz : ∀ k, z k ^ 2 = r k) : ∀ m k i, psi r m k i ^ (2^m) = r k
  | 0, k, i => by simp [psi]
  | m+1, k, i => by
      simp only [psi]
      split
      · rw [pow_succ, pow_mul, psi_pow r z hl hr hz m (2*k) i, hl, hz]
      · rw [pow_succ, pow_mul, psi_pow r z hl hr hz m (2*k+1) _, hr, neg_pow, hz]; simp

theorem nttRec_eval (r z : Nat → R) (hl : ∀ k, r (2*k) = z k) (hr : ∀ k, r (2*k+1) = - z k)
    (hz : ∀ k, z k ^ 2 = r k) : ∀ m k (a : List R), a.length = 2^m → ∀ i, i < 2^m →
      (nttRec z m k a).getD i 0 = peval a (psi r m k i) := by
  intro m
  induction m with
  | zero =>
    intro k a h i hi
    have : i = 0 := by omega
    subst this
    match a, h with
    | [c], _ => simp [nttRec, psi]
  | succ m ih =>
    intro k a h i hi
    have h2 : (2:Nat)^(m+1) = 2^m + 2^m := by ring
    have hlo : (a.take (2^m)).length = 2^m := by simp [h, h2]
    have hhi : (a.drop (2^m)).length = 2^m := by simp [h, h2]
    have hsplit : a = a.take (2^m) ++ a.drop (2^m) := (List.take_append_drop _ _).symm
    simp only [nttRec, psi]
    split
    · rename_i hlt
      rw [List.getD_eq_getElem?_getD, List.getElem?_append_left (by rw [nttRec_length z m _ _ (by simp [hlo, hhi])]; exact hlt), ← List.getD_eq_getElem?_getD]
      rw [ih _ _ (by simp [hlo, hhi]) i hlt, peval_zipWith _ _ _ (by rw [hlo, hhi])]
      conv_rhs => rw [hsplit, peval_append, hlo, psi_pow r z hl hr hz m (2*k) i, hl]
    · rename_i hge
      have hlen := nttRec_length z m (2*k) (List.zipWith (fun u v => u + z k * v) (a.take (2^m)) (a.drop (2^m))) (by simp [hlo, hhi])
      rw [List.getD_eq_getElem?_getD, List.getElem?_append_right (by rw [hlen]; omega), hlen, ← List.getD_eq_getElem?_getD]
      rw [ih _ _ (by simp [hlo, hhi]) (i - 2^m) (by omega), peval_zipWith _ _ _ (by rw [hlo, hhi])]
      conv_rhs => rw [hsplit, peval_append, hlo, psi_pow r z hl hr hz m (2*k+1) _, hr]
#print axioms nttRec_eval
