def Q : Int := 8380417
def G2 : Int := 95232
def decomp88 (a : Int) : Int × Int :=
  let a1 := (a + 127) / 128
  let a1 := (a1 * 11275 + 8388608) / 16777216
  let a1 := if 43 - a1 < 0 then 0 else a1
  let a0 := a - a1 * 2 * G2
  let a0 := if (Q - 1) / 2 - a0 < 0 then a0 - Q else a0
  (a0, a1)
def makeHint (a0 a1 : Int) : Int := if a0 > G2 ∨ a0 < -G2 ∨ (a0 = -G2 ∧ a1 ≠ 0) then 1 else 0
def useHint (a hint : Int) : Int :=
  let d := decomp88 a
  if hint = 0 then d.2
  else if d.1 > 0 then (if d.2 = 43 then 0 else d.2 + 1)
  else (if d.2 = 0 then 43 else d.2 - 1)

theorem decomp88_spec (a : Int) (h0 : 0 ≤ a) (h1 : a < Q) :
    let r := decomp88 a
    0 ≤ r.2 ∧ r.2 < 44 ∧ (r.1 + r.2 * (2*G2) - a) % Q = 0 ∧ -G2 ≤ r.1 ∧ r.1 ≤ G2 ∧ (r.1 = -G2 → r.2 = 0) := by
  simp only [decomp88, Q, G2] at *
  split <;> split <;> omega

theorem decomp88_char (a : Int) (h0 : 0 ≤ a) (h1 : a < Q) :
    (a = (decomp88 a).2 * (2*G2) + (decomp88 a).1 ∧ -G2 < (decomp88 a).1 ∧ (decomp88 a).1 ≤ G2 ∧ 0 ≤ (decomp88 a).2 ∧ (decomp88 a).2 ≤ 43)
    ∨ ((decomp88 a).2 = 0 ∧ (decomp88 a).1 = a - Q ∧ a > Q - 1 - G2) := by
  simp only [decomp88, Q, G2] at *
  split <;> split <;> omega

theorem use_make (w1 a0 : Int) (hw : 0 ≤ w1 ∧ w1 < 44) (ha : -(2*G2) < a0 ∧ a0 < 2*G2) :
    useHint ((w1 * (2*G2) + a0) % Q) (makeHint a0 w1) = w1 := by
  have hr0 : 0 ≤ (w1 * (2*G2) + a0) % Q ∧ (w1 * (2*G2) + a0) % Q < Q := by simp only [Q, G2] at *; omega
  have hc := decomp88_char _ hr0.1 hr0.2
  have hm : (w1 * (2*G2) + a0) % Q = w1 * (2*G2) + a0 ∨ (w1 * (2*G2) + a0) % Q = w1 * (2*G2) + a0 + Q
      ∨ (w1 * (2*G2) + a0) % Q = w1 * (2*G2) + a0 - Q := by simp only [Q, G2] at *; omega
  simp only [useHint, makeHint]
  generalize (w1 * (2*G2) + a0) % Q = r at *
  generalize (decomp88 r).1 = r0 at *
  generalize (decomp88 r).2 = r1 at *
  by_cases hh : (a0 > G2 ∨ a0 < -G2 ∨ a0 = -G2 ∧ w1 ≠ 0)
  · simp only [if_pos hh, show (1:Int) ≠ 0 by decide, if_false]
    simp only [Q, G2] at *
    split <;> split <;> omega
  · simp only [if_neg hh, if_true]
    simp only [Q, G2] at *
    omega
#print axioms decomp88_spec
#print axioms use_make
