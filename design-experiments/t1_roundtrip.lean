theorem or_add (a b i : Nat) (h : b < 2 ^ i) : (a <<< i ||| b) = a * 2 ^ i + b := by
  rw [← Nat.shiftLeft_add_eq_or_of_lt h, Nat.shiftLeft_eq]
theorem or_add' (a b i : Nat) (h : b < 2 ^ i) : (b ||| a <<< i) = a * 2 ^ i + b := by
  rw [Nat.or_comm]; exact or_add a b i h

def pack4 (c0 c1 c2 c3 : Nat) : Nat × Nat × Nat × Nat × Nat :=
  ( (c0 >>> 0) % 256,
    ((c0 >>> 8) ||| (c1 <<< 2)) % 256,
    ((c1 >>> 6) ||| (c2 <<< 4)) % 256,
    ((c2 >>> 4) ||| (c3 <<< 6)) % 256,
    (c3 >>> 2) % 256 )
def unpack4 (b0 b1 b2 b3 b4 : Nat) : Nat × Nat × Nat × Nat :=
  ( ((b0 >>> 0) ||| (b1 <<< 8)) &&& 0x3FF,
    ((b1 >>> 2) ||| (b2 <<< 6)) &&& 0x3FF,
    ((b2 >>> 4) ||| (b3 <<< 4)) &&& 0x3FF,
    ((b3 >>> 6) ||| (b4 <<< 2)) &&& 0x3FF )

theorem mask10 (x : Nat) : x &&& 0x3FF = x % 1024 := by
  have : (0x3FF : Nat) = 2^10 - 1 := by decide
  rw [this, Nat.and_two_pow_sub_one_eq_mod]

theorem t1_roundtrip (c0 c1 c2 c3 : Nat) (h0 : c0 < 1024) (h1 : c1 < 1024) (h2 : c2 < 1024) (h3 : c3 < 1024) :
    let p := pack4 c0 c1 c2 c3
    unpack4 p.1 p.2.1 p.2.2.1 p.2.2.2.1 p.2.2.2.2 = (c0, c1, c2, c3) := by
  simp only [pack4, unpack4, mask10, Nat.shiftRight_zero]
  rw [or_add' c1 (c0 >>> 8) 2 (by simp [Nat.shiftRight_eq_div_pow]; omega),
      or_add' c2 (c1 >>> 6) 4 (by simp [Nat.shiftRight_eq_div_pow]; omega),
      or_add' c3 (c2 >>> 4) 6 (by simp [Nat.shiftRight_eq_div_pow]; omega)]
  rw [or_add' _ (c0 % 256) 8 (by omega),
      or_add' _ (_ >>> 2) 6 (by simp [Nat.shiftRight_eq_div_pow]; omega),
      or_add' _ (_ >>> 4) 4 (by simp [Nat.shiftRight_eq_div_pow]; omega),
      or_add' _ (_ >>> 6) 2 (by simp [Nat.shiftRight_eq_div_pow]; omega)]
  simp only [Nat.shiftRight_eq_div_pow, Prod.mk.injEq]
  omega
#print axioms t1_roundtrip
