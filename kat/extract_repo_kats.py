#!/usr/bin/env python3
"""One-time extraction of the known-answer vectors that sit in /repo's own test modules
(sign/lvl{2,3,5}.rs: NIST Dilithium 3.1 KAT #0 key pair and signatures). Output committed as kat/dilithium_repo_kats.json."""
import re, json
out = {"provenance": "parsed from /repo/src/sign/lvl{2,3,5}.rs #[cfg(test)] modules at commit b2563f2 (Dilithium round-3.1 KAT vectors)", "vectors": []}
SIG = {"lvl2": 2420, "lvl3": 3293, "lvl5": 4595}
def arr(body, name):
    m = re.search(r"let\s+(?:mut\s+)?" + name + r"\s*:\s*\[u8;[^\]]*\]\s*=\s*\[(.*?)\];", body, flags=re.S)
    if not m: return None
    return bytes(int(x.strip(), 16) for x in m.group(1).split(",") if x.strip())
for lv in ("lvl2", "lvl3", "lvl5"):
    src = open("/repo/src/sign/%s.rs" % lv).read()
    tests = src[src.index("mod tests"):]
    fns = re.split(r"#\[test\]", tests)
    for f in fns:
        m = re.search(r"fn\s+(\w+)\s*\(", f)
        if not m: continue
        name = m.group(1)
        if name == "keypair":
            out["vectors"].append(dict(kind="keypair", set=lv, seed=arr(f, "seed").hex(), pk=arr(f, "test_pk").hex(), sk=arr(f, "test_sk").hex()))
        elif name.startswith("signature"):
            sig = arr(f, "test_sig")[:SIG[lv]]
            out["vectors"].append(dict(kind="signature", set=lv, msg=arr(f, "msg").hex(), sk=arr(f, "sk").hex(), sig=sig.hex()))
        elif name == "verify":
            out["vectors"].append(dict(kind="verify", set=lv, msg=arr(f, "msg").hex(), pk=arr(f, "pk").hex(), sig=arr(f, "sig")[:SIG[lv]].hex()))
json.dump(out, open("/verif/kat/dilithium_repo_kats.json", "w"))
print({(v["kind"], v["set"]) for v in out["vectors"]}, len(out["vectors"]))
