// Provenance: run once at development time with /root/.nvm/versions/node/v22.22.2/bin/node (bundled OpenSSL 3.5.x).
// Imports a seed-only ML-DSA PKCS#8 key and exports the public key (SPKI) and the expanded secret key.
// Never needed at check time: the output file is committed.
const crypto = require('crypto');
const sets = { ml_dsa_44: { oid: 0x11, pk: 1312, sk: 2560 }, ml_dsa_65: { oid: 0x12, pk: 1952, sk: 4032 }, ml_dsa_87: { oid: 0x13, pk: 2592, sk: 4896 } };
function seeds() {
  const out = [Buffer.alloc(32, 0), Buffer.alloc(32, 0xff), Buffer.from([...Array(32).keys()])];
  for (let i = 0; i < 17; i++) out.push(crypto.createHash('sha256').update('dv-kat-seed-' + i).digest());
  return out;
}
const res = { provenance: 'OpenSSL ' + process.versions.openssl + ' via node ' + process.version + ' (createPrivateKey on seed-only PKCS#8)', vectors: [] };
for (const [name, s] of Object.entries(sets)) {
  for (const seed of seeds()) {
    const der = Buffer.concat([Buffer.from([0x30, 0x34, 0x02, 0x01, 0x00, 0x30, 0x0b, 0x06, 0x09, 0x60, 0x86, 0x48, 0x01, 0x65, 0x03, 0x04, 0x03, s.oid, 0x04, 0x22, 0x80, 0x20]), seed]);
    const k = crypto.createPrivateKey({ key: der, format: 'der', type: 'pkcs8' });
    const spki = crypto.createPublicKey(k).export({ format: 'der', type: 'spki' });
    const p8 = k.export({ format: 'der', type: 'pkcs8' });
    const pk = spki.subarray(spki.length - s.pk);
    // expanded key: the last s.sk bytes of the "both" / expanded encoding
    const sk = p8.subarray(p8.length - s.sk);
    res.vectors.push({ set: name, seed: seed.toString('hex'), pk: pk.toString('hex'), sk: sk.toString('hex'), p8len: p8.length });
  }
}
console.log(JSON.stringify(res));
