#!/bin/sh
# Run once after a fresh restore, offline: builds the Lean project (model driver + all property theorems) and the harness.
set -e
cd "$(dirname "$0")"
export CARGO_NET_OFFLINE=true
python3 tools/extract_constants.py || true
(cd lean && lake build DilithiumVerif model)
(cd harness && cargo build --offline --quiet --profile checked && cargo build --offline --quiet --release)
echo "setup done"
